#!/usr/bin/env python3
import json, os, sys
HERE = os.path.dirname(os.path.abspath(__file__)); VERIF = os.path.dirname(HERE); sys.path.insert(0, VERIF)
from vlib import units as U, props_meta as M, static_checks as S
props = [json.loads(l) for l in open(os.path.join(VERIF, "properties.jsonl"))]
have = set()
for u in U.all_units():
    have |= set(u.props)
for s in S.all_static():
    have |= set(s["props"])
m = json.load(open(os.path.join(VERIF, "MANIFEST.json")))
m["checks"] = []
m["not_applicable"] = []
claimed = []
for p in props:
    pid = p["id"]
    if pid in M.META and pid in have:
        md = M.META[pid]
        claimed.append(pid)
        m["checks"].append({
            "property_id": pid,
            "quick_cmd": "python3 bin/check.py %s --tier quick" % pid,
            "thorough_cmd": "python3 bin/check.py %s --tier thorough" % pid,
            "evidence_file": "evidence/%s.json" % pid,
            "replay_cmd_template": "python3 bin/check.py %s --replay {path}" % pid,
            "engine": "cbmc-dfcc",
            "level_claimed": {"category": md.get("category", "proof"), "text": md["text"], "design_ref": md.get("design", "DESIGN.md")},
            "level_note": md["note"],
            "technique": md["technique"],
        })
    else:
        m["not_applicable"].append({"property_id": pid, "reason": M.NOT_APPLICABLE.get(pid, "no contract check registered in this revision (planned slice described in DESIGN.md §3; not claimed until its check exists and passes)")})
m["engines"][0]["serves_properties"] = claimed
json.dump(m, open(os.path.join(VERIF, "MANIFEST.json"), "w"), indent=1)
print("claimed:", claimed)
