#!/usr/bin/env python3
"""Driver:  check.py <PROPERTY_ID> [--tier quick|thorough] [--replay <file>] [--unit NAME] [--keep]

Exit 0: every obligation selected for the property was discharged on /repo's working tree.
Exit 1: a named obligation failed -> prints  VIOLATION property=<id> replay=<path> [no-failing-input-found]
Exit 2: undecided (tool failure, timeout, vacuity guard) -- never reported as a violation.
Evidence is rewritten on every run.
"""
import sys, os, json, time, argparse, tempfile, shutil, concurrent.futures as cf, re, hashlib

HERE = os.path.dirname(os.path.abspath(__file__))
VERIF = os.path.dirname(HERE)
sys.path.insert(0, VERIF)
from vlib import core, units as U, replay as R, findings as F, static_checks as S  # noqa: E402


def run_one(args):
    u, wd = args
    r = core.build_and_check(u, wd)
    if r.status == "fail":
        # second pass with traces, only for the failing obligations (cheap: --property)
        failing = [o["name"] for o in r.obligations if o["status"] == "FAILURE"]
        r2 = core.build_and_check(u, wd + "_t", trace=True, only_props=failing[:6])
        byname = {o["name"]: o for o in r2.obligations}
        for o in r.obligations:
            if o["status"] == "FAILURE" and o["name"] in byname and "trace" in byname[o["name"]]:
                o["trace"] = byname[o["name"]]["trace"]
        shutil.rmtree(wd + "_t", ignore_errors=True)
    return r


def main():
    ap = argparse.ArgumentParser()
    ap.add_argument("pid")
    ap.add_argument("--tier", default=os.environ.get("VERIF_TIER", "quick"))
    ap.add_argument("--replay")
    ap.add_argument("--unit", action="append")
    ap.add_argument("--keep", action="store_true")
    ap.add_argument("--jobs", type=int, default=int(os.environ.get("VERIF_JOBS", "0")))
    a = ap.parse_args()
    pid = a.pid
    tier = a.tier if a.tier in ("quick", "thorough") else "quick"
    seed = int(os.environ.get("VERIF_SEED", "0") or 0)
    if a.replay:
        sys.exit(R.rerun_replay(a.replay))
    t0 = time.time()
    sel = [u for u in U.all_units() if pid in u.props and (tier == "thorough" or u.tier == "quick")]
    if a.unit:
        sel = [u for u in sel if u.name in a.unit]
    statics = [s for s in S.all_static() if pid in s["props"] and (tier == "thorough" or s.get("tier", "quick") == "quick")]
    if not sel and not statics:
        print("no units registered for", pid)
        sys.exit(2)
    # deterministic order, seed only rotates which unit starts first
    sel.sort(key=lambda u: (-u.weight, u.name))
    if sel and seed:
        k = seed % len(sel)
        sel = sel[k:] + sel[:k]
    scratch = tempfile.mkdtemp(prefix="verif_%s_" % pid)
    results = []
    try:
        total_w = sum(u.weight for u in sel)
        nj = a.jobs or max(1, min(len(sel), 14))
        # weight-aware: heavy units (weight>=4) limit concurrency
        heavy = [u for u in sel if u.weight >= 4]
        if heavy:
            nj = min(nj, max(2, 16 // max(u.weight for u in heavy)))
        with cf.ThreadPoolExecutor(max_workers=nj) as ex:
            futs = [ex.submit(run_one, (u, os.path.join(scratch, u.name))) for u in sel]
            for f in futs:
                results.append(f.result())
        static_results = [S.run_static(s) for s in statics]
    finally:
        if not a.keep:
            shutil.rmtree(scratch, ignore_errors=True)
        else:
            print("scratch kept at", scratch)

    known = F.load()
    obligations = 0
    discharged = 0
    bounded_obl = 0
    bounded_ok = 0
    distinct = set()
    violations = []   # (unit, obligation)
    undecided = []
    functions, trusted, samples, bounded, cmds, per_unit = [], [], [], [], [], []
    solver = 0.0
    for r in results:
        u = r.unit
        solver += r.solver_s
        per_unit.append({"unit": u.name, "status": r.status, "reason": r.reason[:300], "wall_s": round(r.wall_s, 1),
                         "solver_s": round(r.solver_s, 1), "obligations_total": len(r.obligations),
                         "backend": r.backend, "slice": u.slice, "bounded": u.bounded})
        if r.status == "error":
            undecided.append((u.name, r.reason))
            continue
        mine = [o for o in r.obligations if core.select(u, pid, o)]
        if not mine:
            if u.props.get(pid) == "tag":
                continue   # this unit contributes to pid only through explicitly tagged obligations, and has none
            undecided.append((u.name, "vacuity guard: no obligation of this unit is selected for %s" % pid))
            continue
        functions += u.functions
        trusted += u.trusted
        cmds.append(r.cmds[-1] if r.cmds else "")
        if u.bounded:
            bounded.append({"unit": u.name, "bound": u.bounded, "obligations": len(mine)})
        for o in mine:
            distinct.add((u.harness, u.entry.split("_")[1] if "_" in u.entry else u.entry, o["description"][:120]))
            if not u.bounded:
                obligations += 1
            else:
                bounded_obl += 1
            if o["status"] == "SUCCESS":
                if not u.bounded:
                    discharged += 1
                else:
                    bounded_ok += 1
            else:
                violations.append((r, o))
        if mine and len(samples) < 12:
            for o in mine[:2]:
                samples.append({"unit": u.name, "obligation": o["name"], "description": o["description"][:160],
                                "at": o["loc"], "status": o["status"]})
    for sr in static_results:
        per_unit.append({"unit": sr["name"], "status": sr["status"], "reason": sr.get("reason", "")[:300],
                         "wall_s": round(sr.get("wall_s", 0), 1), "kind": "static-fact", "facts": sr.get("facts", 0)})
        if sr["status"] == "error":
            undecided.append((sr["name"], sr.get("reason", "")))
        elif sr["status"] == "fail":
            for v in sr["violations"]:
                violations.append((sr, v))
        obligations += sr.get("facts", 0)
        discharged += sr.get("facts", 0) - len(sr.get("violations", []))
        for s_ in sr.get("samples", [])[:2]:
            samples.append(s_)
        trusted += sr.get("trusted", [])

    # ---- report ----
    rc = 0
    new_viol = 0
    os.makedirs(os.path.join(VERIF, "replay"), exist_ok=True)
    seen_known = set()
    for r, o in violations:
        if isinstance(r, dict):   # static fact
            uname = r["name"]
            info = {"property": pid, "unit": uname, "obligation": o["name"], "description": o["description"],
                    "verifier_output": o.get("detail", ""), "kind": "static-fact"}
            confirmed, detail = False, "static fact about the source text; no input involved"
        else:
            uname = r.unit.name
            info, confirmed, detail = R.make_replay(pid, r, o)
        kf = F.match(known, pid, uname, o, info)
        if kf is not None:
            if kf["key"] not in seen_known:
                print("KNOWN-FINDING: property=%s %s" % (pid, kf["text"]))
                seen_known.add(kf["key"])
            continue
        new_viol += 1
        h = hashlib.sha1((uname + o["name"] + o.get("description", "")).encode()).hexdigest()[:8]
        path = os.path.join(VERIF, "replay", "%s_%s_%s.json" % (pid, uname, h))
        info["native_replay_confirmed"] = confirmed
        info["native_replay_detail"] = detail
        with open(path, "w") as f:
            json.dump(info, f, indent=1, default=str)
        line = "VIOLATION property=%s replay=%s" % (pid, path)
        if not confirmed:
            line += " no-failing-input-found"
        print("  failed obligation: %s [%s] %s @ %s" % (o["name"], uname, o.get("description", "")[:140], o.get("loc", "")))
        print(line)
        rc = 1
    for name, why in undecided:
        print("UNDECIDED unit=%s: %s" % (name, why[:400]))
    if rc == 0 and undecided:
        rc = 2

    from vlib import props_meta as PM
    level = PM.META.get(pid, {}).get("category", "proof")
    if obligations == 0 and level == "proof":
        level = "model_checking"   # nothing but bounded stand-ins ran: never report that as proof
    explanation = PM.META.get(pid, {}).get("text", "")
    ev = {
        "property_id": pid, "tier": tier, "seed": seed, "level": level,
        "coverage": {
            "obligations": obligations, "discharged": discharged,
            "bounded_obligations": bounded_obl, "bounded_obligations_held": bounded_ok,
            "evaluations": obligations + bounded_obl, "distinct_nontrivial": max(len(distinct), 0),
            "explanation": explanation,
            "rule": "one evaluation = one verification condition decided by CBMC for all inputs of its unit (unbounded units count under obligations/discharged, "
                    "bounded stand-ins under bounded_obligations); distinct = distinct (harness, function, obligation text)",
            "checker_cmd": "; ".join(sorted(set(c.split(" --json-ui")[0] for c in cmds)))[:1500] or "static facts only",
            "trusted_base": sorted(set(trusted)),
            "functions_under_contract": sorted(set(functions)),
            "units": per_unit, "bounded": bounded, "samples": samples,
            "backend": sorted(set(r.backend for r in results if r.backend)),
            "solver_seconds": round(solver, 1),
            "undecided": [{"unit": n, "why": w[:300]} for n, w in undecided],
            "known_findings_reported": sorted(seen_known),
            "slice": U.SLICES.get(pid, ""),
        },
        "assumptions": U.ASSUMPTIONS.get(pid, []) + U.COMMON_ASSUMPTIONS,
        "wall_s": round(time.time() - t0, 1),
        "violations": new_viol,
    }
    os.makedirs(os.path.join(VERIF, "evidence"), exist_ok=True)
    if a.unit:
        # a developer run restricted to some units (--unit) is not the registered check: it must not replace the evidence of the full one
        print("(--unit run: evidence/%s.json left untouched)" % pid)
    else:
        with open(os.path.join(VERIF, "evidence", "%s.json" % pid), "w") as f:
            json.dump(ev, f, indent=1)
    print("%s tier=%s units=%d obligations=%d discharged=%d bounded_units=%d undecided=%d violations=%d wall=%.0fs"
          % (pid, tier, len(results) + len(static_results), obligations, discharged, len(bounded), len(undecided), new_viol, time.time() - t0))
    sys.exit(rc)


if __name__ == "__main__":
    main()
