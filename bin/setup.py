#!/usr/bin/env python3
"""Offline setup: verify the tool chain; nothing is compiled ahead of time (every check rebuilds
its goto binaries from /repo's working tree)."""
import shutil, subprocess, sys, os
need = ["cbmc", "goto-cc", "goto-instrument", "gcc", "python3"]
miss = [t for t in need if shutil.which(t) is None]
if miss:
    print("missing tools:", miss); sys.exit(1)
v = subprocess.run(["cbmc", "--version"], stdout=subprocess.PIPE).stdout.decode().strip()
print("cbmc", v)
if not os.path.isdir("/repo/lib"):
    print("no /repo/lib"); sys.exit(1)
os.makedirs(os.path.join(os.path.dirname(os.path.dirname(os.path.abspath(__file__))), "evidence"), exist_ok=True)
print("setup ok")
