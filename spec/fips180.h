/* FIPS 180-4 framing facts, written from the standard (sections 5.1, 5.3, 6): initial hash
 * values, block/length-field sizes, padded-message bytes. Independent of lib/include/constants.h. */
#ifndef VERIF_FIPS180_H
#define VERIF_FIPS180_H
#include <stdint.h>

static const uint32_t FIPS_SHA1_IV[5] = { 0x67452301u, 0xefcdab89u, 0x98badcfeu, 0x10325476u, 0xc3d2e1f0u };
static const uint32_t FIPS_SHA224_IV[8] = { 0xc1059ed8u, 0x367cd507u, 0x3070dd17u, 0xf70e5939u,
                                            0xffc00b31u, 0x68581511u, 0x64f98fa7u, 0xbefa4fa4u };
static const uint32_t FIPS_SHA256_IV[8] = { 0x6a09e667u, 0xbb67ae85u, 0x3c6ef372u, 0xa54ff53au,
                                            0x510e527fu, 0x9b05688cu, 0x1f83d9abu, 0x5be0cd19u };
static const uint64_t FIPS_SHA384_IV[8] = { 0xcbbb9d5dc1059ed8ull, 0x629a292a367cd507ull, 0x9159015a3070dd17ull,
                                            0x152fecd8f70e5939ull, 0x67332667ffc00b31ull, 0x8eb44a8768581511ull,
                                            0xdb0c2e0d64f98fa7ull, 0x47b5481dbefa4fa4ull };
static const uint64_t FIPS_SHA512_IV[8] = { 0x6a09e667f3bcc908ull, 0xbb67ae8584caa73bull, 0x3c6ef372fe94f82bull,
                                            0xa54ff53a5f1d36f1ull, 0x510e527fade682d1ull, 0x9b05688c2b3e6c1full,
                                            0x1f83d9abfb41bd6bull, 0x5be0cd19137e2179ull };

/* block size in bytes */
static inline uint64_t fips_blk(const int t) { return (t == 384 || t == 512) ? 128 : 64; }
/* size of the message-length field in bytes: 64 bits for SHA-1/224/256, 128 bits for SHA-384/512 */
static inline uint64_t fips_lenfield(const int t) { return (t == 384 || t == 512) ? 16 : 8; }
/* digest bytes written out */
static inline uint64_t fips_digest_bytes(const int t) { return t == 1 ? 20 : t == 224 ? 28 : t == 256 ? 32 : t == 384 ? 48 : 64; }
/* word size */
static inline uint64_t fips_word(const int t) { return (t == 384 || t == 512) ? 8 : 4; }

/* number of blocks of the padded message: smallest k with k*blk >= len + 1 + lenfield */
static inline uint64_t
fips_nblocks(const int t, const uint64_t len)
{
        const uint64_t b = fips_blk(t);
        return (len + 1 + fips_lenfield(t) + b - 1) / b;
}

/* byte `pos` of the padded message (pos < nblocks * blk) */
static inline uint8_t
fips_pad_byte(const int t, const uint8_t *msg, const uint64_t len, const uint64_t pos)
{
        const uint64_t total = fips_nblocks(t, len) * fips_blk(t);

        if (pos < len)
                return msg[pos];
        if (pos == len)
                return 0x80;
        if (pos >= total - 8) /* low 64 bits of the big-endian bit length; upper 64 bits are zero */
                return (uint8_t) ((len * 8) >> (8 * (total - 1 - pos)));
        return 0;
}
#endif
