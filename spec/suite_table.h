/*
 * C06 oracle: what the dispatcher level must be told for a job of a given suite.
 * From README Table 1/2 and the enum comments of intel-ipsec-mb.h: which modes exist in
 * several key sizes (the size selects the algorithm) and which have one documented size.
 */
#ifndef VERIF_SUITE_TABLE_H
#define VERIF_SUITE_TABLE_H
#include "intel-ipsec-mb.h"

/* 0: no key (any slot is fine); -1: the key size selects the algorithm variant and has to be
 * passed through unchanged; otherwise the single documented key size in bytes */
static inline int
suite_key_class(const IMB_CIPHER_MODE m)
{
        switch (m) {
        case IMB_CIPHER_NULL:
        case IMB_CIPHER_CUSTOM:
                return 0;
        case IMB_CIPHER_CBC:
        case IMB_CIPHER_CNTR:
        case IMB_CIPHER_CNTR_BITLEN:
        case IMB_CIPHER_ECB:
        case IMB_CIPHER_CFB:
        case IMB_CIPHER_GCM:
        case IMB_CIPHER_GCM_SGL:
        case IMB_CIPHER_DOCSIS_SEC_BPI:
        case IMB_CIPHER_CCM:
        case IMB_CIPHER_ZUC_EEA3:
                return -1;
        case IMB_CIPHER_DES:
        case IMB_CIPHER_DOCSIS_DES:
                return 8;
        case IMB_CIPHER_DES3:
                return 24;
        case IMB_CIPHER_PON_AES_CNTR:
        case IMB_CIPHER_SNOW3G_UEA2_BITLEN:
        case IMB_CIPHER_KASUMI_UEA1_BITLEN:
        case IMB_CIPHER_SM4_ECB:
        case IMB_CIPHER_SM4_CBC:
        case IMB_CIPHER_SM4_CNTR:
        case IMB_CIPHER_SM4_GCM:
        case IMB_CIPHER_CBCS_1_9: /* README: AES128-CBCS only */
                return 16;
        case IMB_CIPHER_CHACHA20:
        case IMB_CIPHER_CHACHA20_POLY1305:
        case IMB_CIPHER_CHACHA20_POLY1305_SGL:
        case IMB_CIPHER_SNOW_V:
        case IMB_CIPHER_SNOW_V_AEAD:
                return 32;
        default:
                return -2; /* not a cipher mode */
        }
}

/* the (mode, key size) a dispatcher is called with names the job's own algorithm */
static inline int
suite_dispatch_ok(const IMB_JOB *job, const IMB_CIPHER_MODE cipher_mode, const uint64_t key_sz)
{
        const int kc = suite_key_class(job->cipher_mode);

        if (cipher_mode != job->cipher_mode)
                return 0;
        if (kc == 0)
                return 1;
        if (kc == -1)
                return key_sz == job->key_len_in_bytes;
        if (kc > 0) {
                /* PON without ciphering (length 0) carries no key */
                if (job->cipher_mode == IMB_CIPHER_PON_AES_CNTR &&
                    job->msg_len_to_cipher_in_bytes == 0)
                        return 1;
                return key_sz == (uint64_t) kc && job->key_len_in_bytes == (uint64_t) kc;
        }
        return 0;
}
#endif
