/*
 * C12 / C06 oracle: flat catalogue of the documented job constraints.
 *
 * Organised by KIND of constraint (pairing, key length, required pointer, IV
 * length, message length, tag, algorithm specific), not by the control flow of
 * is_job_invalid().  A job is invalid iff at least one row fires; the set of
 * acceptable error codes is the union of the rows that fire (the manager's
 * error code has to "name a violated constraint"; which one when several are
 * violated is not part of the property).
 *
 * Sources: lib/intel-ipsec-mb.h (IMB_JOB field comments, limits macros, enum
 * comments), README Tables 1-2 (supported key sizes), RFC 3610 (CCM nonce/tag),
 * NIST SP 800-38D (GCM), RFC 8439 (ChaCha20-Poly1305), 3GPP TS 35.201/215/221
 * (bit-length limits), ITU-T G.987.3 (XGEM header), DOCSIS BPI+ notes in the
 * header.  Plain side-effect-free C: used in CBMC contracts and in the native
 * replay.
 */
#ifndef VERIF_JOB_CONSTRAINTS_H
#define VERIF_JOB_CONSTRAINTS_H

#include <stdint.h>
#include <errno.h>
#include "intel-ipsec-mb.h"

typedef uint64_t errset_t;
#define ES_EFAULT_BIT 62
#define ES_EINVAL_BIT 63

static inline errset_t
es_of(const int err)
{
        if (err == EFAULT)
                return 1ULL << ES_EFAULT_BIT;
        if (err == EINVAL)
                return 1ULL << ES_EINVAL_BIT;
        if (err > IMB_ERR_MIN && err < IMB_ERR_MAX && (err - IMB_ERR_MIN) < 62)
                return 1ULL << (err - IMB_ERR_MIN);
        return 0;
}

#define SPEC_MB_MAX_LEN16 65534ULL            /* multi-buffer managers use 16-bit lengths */
#define SPEC_PON_MAX_LEN ((1ULL << 14) + 8)   /* PLI max 2^14-1 (+1 pad) + 8-byte XGEM header */
#define SPEC_ZUC_MAX_BYTELEN (65504ULL / 8)   /* TS 35.221: 1..65504 bits */
#define SPEC_ZUC_MAX_BITLEN 65504ULL
#define SPEC_KASUMI_MAX_BITLEN 20000ULL       /* TS 35.201: 1..20000 bits */
#define SPEC_SNOW3G_MAX_BITLEN 0xffffffffULL  /* TS 35.215: 1..2^32-1 bits */

/* job view: the fields as the checker sees them (cipher_mode/hash/dir/key are the
 * by-value arguments the entry points pass alongside the descriptor) */
struct jc_view {
        const IMB_JOB *job;
        IMB_CIPHER_MODE cm;
        IMB_HASH_ALG ha;
        IMB_CIPHER_DIRECTION dir;
        uint64_t klen;
        /* facts behind pointers (only meaningful when the pointer is non-NULL);
         * filled by the harness / replay from the objects the job points at */
        int des3_key_has_null;  /* any of the three 3DES schedule pointers NULL */
        uint64_t pon_xgem_hdr;  /* the 8 bytes at src + hash_start_src_offset */
        int sgl_seg_null_in;    /* some segment with len != 0 has in == NULL */
        int sgl_seg_null_out;   /* some segment with len != 0 has out == NULL */
        uint64_t sgl_total_len; /* sum of the segment lengths */
};

#define JC_IN2(x, a, b) ((x) == (a) || (x) == (b))
#define JC_IN3(x, a, b, c) ((x) == (a) || (x) == (b) || (x) == (c))

static inline int
jc_cipher_known(const IMB_CIPHER_MODE m)
{
        return m >= IMB_CIPHER_CBC && m < IMB_CIPHER_NUM;
}

static inline int
jc_hash_known(const IMB_HASH_ALG h)
{
        return h >= IMB_AUTH_HMAC_SHA_1 && h < IMB_AUTH_NUM;
}

/* cipher modes that process [src+off, +len) into dst and need both for any length */
static inline int
jc_cipher_needs_src_dst_always(const IMB_CIPHER_MODE m)
{
        switch (m) {
        case IMB_CIPHER_CBC:
        case IMB_CIPHER_CBCS_1_9:
        case IMB_CIPHER_ECB:
        case IMB_CIPHER_CNTR:
        case IMB_CIPHER_CNTR_BITLEN:
        case IMB_CIPHER_DOCSIS_SEC_BPI:
        case IMB_CIPHER_DES:
        case IMB_CIPHER_DOCSIS_DES:
        case IMB_CIPHER_DES3:
        case IMB_CIPHER_PON_AES_CNTR:
        case IMB_CIPHER_ZUC_EEA3:
        case IMB_CIPHER_SNOW3G_UEA2_BITLEN:
        case IMB_CIPHER_KASUMI_UEA1_BITLEN:
        case IMB_CIPHER_CHACHA20:
        case IMB_CIPHER_SM4_ECB:
        case IMB_CIPHER_SM4_CBC:
        case IMB_CIPHER_SM4_CNTR:
                return 1;
        default:
                return 0;
        }
}

/* modes where an empty message is legal, so src/dst are needed only if len != 0 */
static inline int
jc_cipher_needs_src_dst_if_len(const IMB_CIPHER_MODE m, const IMB_JOB *j)
{
        switch (m) {
        case IMB_CIPHER_GCM:
        case IMB_CIPHER_SM4_GCM:
        case IMB_CIPHER_CCM:
        case IMB_CIPHER_CHACHA20_POLY1305:
        case IMB_CIPHER_SNOW_V:
        case IMB_CIPHER_SNOW_V_AEAD:
        case IMB_CIPHER_CFB:
                return 1;
        case IMB_CIPHER_GCM_SGL:
        case IMB_CIPHER_CHACHA20_POLY1305_SGL:
                /* per-segment calls carry the segment in src/dst */
                return j->sgl_state == IMB_SGL_INIT || j->sgl_state == IMB_SGL_UPDATE ||
                       j->sgl_state == IMB_SGL_COMPLETE;
        default:
                return 0;
        }
}

static inline int
jc_cipher_needs_iv(const IMB_CIPHER_MODE m, const IMB_JOB *j)
{
        switch (m) {
        case IMB_CIPHER_NULL:
        case IMB_CIPHER_CUSTOM:
        case IMB_CIPHER_ECB:
        case IMB_CIPHER_SM4_ECB:
                return 0;
        case IMB_CIPHER_PON_AES_CNTR:
                return j->msg_len_to_cipher_in_bytes != 0; /* no ciphering => no IV */
        default:
                return jc_cipher_known(m);
        }
}

/* which key pointer(s) a mode dereferences: bit0 = enc_keys, bit1 = dec_keys */
static inline int
jc_cipher_keys_needed(const IMB_CIPHER_MODE m, const IMB_CIPHER_DIRECTION d, const IMB_JOB *j)
{
        const int by_dir = (d == IMB_DIR_ENCRYPT) ? 1 : ((d == IMB_DIR_DECRYPT) ? 2 : 0);

        switch (m) {
        case IMB_CIPHER_CBC:
        case IMB_CIPHER_CBCS_1_9:
        case IMB_CIPHER_ECB:
        case IMB_CIPHER_GCM:
        case IMB_CIPHER_GCM_SGL:
        case IMB_CIPHER_SM4_GCM:
        case IMB_CIPHER_DES:
        case IMB_CIPHER_DOCSIS_DES:
        case IMB_CIPHER_DES3:
        case IMB_CIPHER_SM4_ECB:
        case IMB_CIPHER_SM4_CBC:
        case IMB_CIPHER_CFB:
                return by_dir;
        case IMB_CIPHER_DOCSIS_SEC_BPI:
                return 1 | by_dir; /* enc_keys always (CFB residual block) */
        case IMB_CIPHER_CNTR:
        case IMB_CIPHER_CNTR_BITLEN:
        case IMB_CIPHER_CCM:
        case IMB_CIPHER_ZUC_EEA3:
        case IMB_CIPHER_SNOW3G_UEA2_BITLEN:
        case IMB_CIPHER_KASUMI_UEA1_BITLEN:
        case IMB_CIPHER_CHACHA20:
        case IMB_CIPHER_CHACHA20_POLY1305:
        case IMB_CIPHER_CHACHA20_POLY1305_SGL:
        case IMB_CIPHER_SNOW_V:
        case IMB_CIPHER_SNOW_V_AEAD:
        case IMB_CIPHER_SM4_CNTR:
                return 1; /* stream / counter modes use the encrypt schedule only */
        case IMB_CIPHER_PON_AES_CNTR:
                return j->msg_len_to_cipher_in_bytes != 0 ? 1 : 0;
        default:
                return 0;
        }
}

/* documented key sizes (README Table 1 + header) */
static inline int
jc_key_len_ok(const IMB_CIPHER_MODE m, const uint64_t k, const IMB_JOB *j)
{
        switch (m) {
        case IMB_CIPHER_CBC:
        case IMB_CIPHER_ECB:
        case IMB_CIPHER_CNTR:
        case IMB_CIPHER_CNTR_BITLEN:
        case IMB_CIPHER_CFB:
        case IMB_CIPHER_GCM:
        case IMB_CIPHER_GCM_SGL:
                return k == 16 || k == 24 || k == 32;
        case IMB_CIPHER_DOCSIS_SEC_BPI:
        case IMB_CIPHER_CCM:
        case IMB_CIPHER_ZUC_EEA3:
                return k == 16 || k == 32;
        case IMB_CIPHER_DES:
        case IMB_CIPHER_DOCSIS_DES:
                return k == 8;
        case IMB_CIPHER_DES3:
                return k == 24;
        case IMB_CIPHER_SNOW3G_UEA2_BITLEN:
        case IMB_CIPHER_KASUMI_UEA1_BITLEN:
        case IMB_CIPHER_SM4_ECB:
        case IMB_CIPHER_SM4_CBC:
        case IMB_CIPHER_SM4_CNTR:
        case IMB_CIPHER_SM4_GCM:
        case IMB_CIPHER_CBCS_1_9: /* README Table 1: AES128-CBCS only */
                return k == 16;
        case IMB_CIPHER_CHACHA20:
        case IMB_CIPHER_CHACHA20_POLY1305:
        case IMB_CIPHER_CHACHA20_POLY1305_SGL:
        case IMB_CIPHER_SNOW_V:
        case IMB_CIPHER_SNOW_V_AEAD:
                return k == 32;
        case IMB_CIPHER_PON_AES_CNTR:
                return j->msg_len_to_cipher_in_bytes == 0 || k == 16;
        default:
                return 1; /* NULL / CUSTOM: no key */
        }
}

static inline int
jc_iv_len_ok(const IMB_CIPHER_MODE m, const uint64_t klen, const IMB_JOB *j)
{
        const uint64_t iv = j->iv_len_in_bytes;

        switch (m) {
        case IMB_CIPHER_CBC:
        case IMB_CIPHER_CBCS_1_9:
        case IMB_CIPHER_CNTR_BITLEN:
        case IMB_CIPHER_DOCSIS_SEC_BPI:
        case IMB_CIPHER_SNOW3G_UEA2_BITLEN:
        case IMB_CIPHER_SNOW_V:
        case IMB_CIPHER_SNOW_V_AEAD:
        case IMB_CIPHER_SM4_CBC:
        case IMB_CIPHER_CFB:
                return iv == 16;
        case IMB_CIPHER_CNTR:
        case IMB_CIPHER_SM4_CNTR:
                return iv == 16 || iv == 12; /* full counter block or nonce+IV */
        case IMB_CIPHER_GCM:
        case IMB_CIPHER_GCM_SGL:
                return iv != 0; /* SP 800-38D: any non-empty IV */
        case IMB_CIPHER_SM4_GCM:
        case IMB_CIPHER_CHACHA20:
        case IMB_CIPHER_CHACHA20_POLY1305:
        case IMB_CIPHER_CHACHA20_POLY1305_SGL:
                return iv == 12;
        case IMB_CIPHER_DES:
        case IMB_CIPHER_DOCSIS_DES:
        case IMB_CIPHER_DES3:
        case IMB_CIPHER_KASUMI_UEA1_BITLEN:
                return iv == 8;
        case IMB_CIPHER_CCM:
                return iv >= 7 && iv <= 13; /* RFC 3610: nonce = 15 - L, L in 2..8 */
        case IMB_CIPHER_PON_AES_CNTR:
                return j->msg_len_to_cipher_in_bytes == 0 || iv == 16;
        case IMB_CIPHER_ZUC_EEA3:
                if (klen == 16)
                        return iv == 16;
                if (klen == 32)
                        return iv == 23 || iv == 25;
                return 1; /* key length row fires instead */
        default:
                return 1;
        }
}

/* message-length-to-cipher rule */
static inline int
jc_cipher_len_ok(const IMB_CIPHER_MODE m, const IMB_CIPHER_DIRECTION d, const struct jc_view *v)
{
        const IMB_JOB *j = v->job;
        const uint64_t n = j->msg_len_to_cipher_in_bytes; /* same storage as .._in_bits */
        const int per_seg = j->sgl_state == IMB_SGL_INIT || j->sgl_state == IMB_SGL_UPDATE ||
                            j->sgl_state == IMB_SGL_COMPLETE;

        switch (m) {
        case IMB_CIPHER_CBC:
                return n != 0 && (n & 15) == 0 && !(d == IMB_DIR_ENCRYPT && n > SPEC_MB_MAX_LEN16);
        case IMB_CIPHER_CBCS_1_9:
                return n != 0 && (n & 15) == 0 && n <= ((1ULL << 60) - 1);
        case IMB_CIPHER_ECB:
                return n != 0 && (n & 15) == 0 && n <= SPEC_MB_MAX_LEN16;
        case IMB_CIPHER_CNTR:
        case IMB_CIPHER_CNTR_BITLEN:
        case IMB_CIPHER_SM4_CNTR:
                return n != 0;
        case IMB_CIPHER_DOCSIS_SEC_BPI:
                return n <= SPEC_MB_MAX_LEN16;
        case IMB_CIPHER_GCM:
        case IMB_CIPHER_SM4_GCM:
                return n <= IMB_GCM_MAX_LEN;
        case IMB_CIPHER_GCM_SGL:
                if (per_seg)
                        return n <= IMB_GCM_MAX_LEN;
                if (j->sgl_state == IMB_SGL_ALL)
                        return v->sgl_total_len <= IMB_GCM_MAX_LEN;
                return 1;
        case IMB_CIPHER_DES:
        case IMB_CIPHER_DES3:
                return n != 0 && (n & 7) == 0 && n <= SPEC_MB_MAX_LEN16;
        case IMB_CIPHER_DOCSIS_DES:
                return n != 0 && n <= SPEC_MB_MAX_LEN16;
        case IMB_CIPHER_CCM:
                return n <= SPEC_MB_MAX_LEN16;
        case IMB_CIPHER_PON_AES_CNTR:
                return n == 0 || ((n & 3) == 0 && n <= SPEC_PON_MAX_LEN - 8);
        case IMB_CIPHER_ZUC_EEA3:
                return n != 0 && n <= SPEC_ZUC_MAX_BYTELEN;
        case IMB_CIPHER_SNOW3G_UEA2_BITLEN:
                return n != 0 && n <= SPEC_SNOW3G_MAX_BITLEN;
        case IMB_CIPHER_KASUMI_UEA1_BITLEN:
                return n != 0 && n <= SPEC_KASUMI_MAX_BITLEN;
        case IMB_CIPHER_CHACHA20:
                return n != 0 && n <= IMB_CHACHA20_POLY1305_MAX_LEN;
        case IMB_CIPHER_CHACHA20_POLY1305:
                return n <= IMB_CHACHA20_POLY1305_MAX_LEN;
        case IMB_CIPHER_CHACHA20_POLY1305_SGL:
                if (per_seg)
                        return n <= IMB_CHACHA20_POLY1305_MAX_LEN;
                if (j->sgl_state == IMB_SGL_ALL)
                        return v->sgl_total_len <= IMB_CHACHA20_POLY1305_MAX_LEN;
                return 1;
        case IMB_CIPHER_SM4_ECB:
                return n != 0 && (n & 15) == 0;
        case IMB_CIPHER_SM4_CBC:
                return n != 0 && (n & 15) == 0 && n <= SPEC_MB_MAX_LEN16;
        case IMB_CIPHER_CFB:
                return (n & 15) == 0;
        default:
                return 1;
        }
}

/* the hash algorithm each AEAD cipher must be paired with (0 = free choice) */
static inline IMB_HASH_ALG
jc_cipher_required_hash(const IMB_CIPHER_MODE m)
{
        switch (m) {
        case IMB_CIPHER_GCM:
                return IMB_AUTH_AES_GMAC;
        case IMB_CIPHER_GCM_SGL:
                return IMB_AUTH_GCM_SGL;
        case IMB_CIPHER_SM4_GCM:
                return IMB_AUTH_SM4_GCM;
        case IMB_CIPHER_CCM:
                return IMB_AUTH_AES_CCM;
        case IMB_CIPHER_PON_AES_CNTR:
                return IMB_AUTH_PON_CRC_BIP;
        case IMB_CIPHER_CHACHA20_POLY1305:
                return IMB_AUTH_CHACHA20_POLY1305;
        case IMB_CIPHER_CHACHA20_POLY1305_SGL:
                return IMB_AUTH_CHACHA20_POLY1305_SGL;
        case IMB_CIPHER_SNOW_V_AEAD:
                return IMB_AUTH_SNOW_V_AEAD;
        default:
                return (IMB_HASH_ALG) 0;
        }
}

/* the cipher each AEAD hash must be paired with (0 = free choice) */
static inline IMB_CIPHER_MODE
jc_hash_required_cipher(const IMB_HASH_ALG h)
{
        switch (h) {
        case IMB_AUTH_AES_GMAC:
                return IMB_CIPHER_GCM;
        case IMB_AUTH_GCM_SGL:
                return IMB_CIPHER_GCM_SGL;
        case IMB_AUTH_SM4_GCM:
                return IMB_CIPHER_SM4_GCM;
        case IMB_AUTH_AES_CCM:
                return IMB_CIPHER_CCM;
        case IMB_AUTH_PON_CRC_BIP:
                return IMB_CIPHER_PON_AES_CNTR;
        case IMB_AUTH_DOCSIS_CRC32:
                return IMB_CIPHER_DOCSIS_SEC_BPI;
        case IMB_AUTH_CHACHA20_POLY1305:
                return IMB_CIPHER_CHACHA20_POLY1305;
        case IMB_AUTH_CHACHA20_POLY1305_SGL:
                return IMB_CIPHER_CHACHA20_POLY1305_SGL;
        case IMB_AUTH_SNOW_V_AEAD:
                return IMB_CIPHER_SNOW_V_AEAD;
        default:
                return (IMB_CIPHER_MODE) 0;
        }
}

static inline int
jc_is_crc(const IMB_HASH_ALG h)
{
        return h >= IMB_AUTH_CRC32_ETHERNET_FCS && h <= IMB_AUTH_CRC6_IUUP_HEADER;
}

/* full digest size and the IPsec-truncated size of the HMAC / plain hashes */
static inline uint64_t
jc_digest_full(const IMB_HASH_ALG h)
{
        switch (h) {
        case IMB_AUTH_HMAC_SHA_1:
        case IMB_AUTH_SHA_1:
                return 20;
        case IMB_AUTH_HMAC_SHA_224:
        case IMB_AUTH_SHA_224:
                return 28;
        case IMB_AUTH_HMAC_SHA_256:
        case IMB_AUTH_SHA_256:
                return 32;
        case IMB_AUTH_HMAC_SHA_384:
        case IMB_AUTH_SHA_384:
                return 48;
        case IMB_AUTH_HMAC_SHA_512:
        case IMB_AUTH_SHA_512:
                return 64;
        case IMB_AUTH_MD5:
                return 16;
        case IMB_AUTH_AES_XCBC:
                return 12; /* AES-XCBC-MAC-96 */
        default:
                return 0;
        }
}

static inline uint64_t
jc_digest_ipsec(const IMB_HASH_ALG h)
{
        switch (h) {
        case IMB_AUTH_HMAC_SHA_1:
                return 12; /* HMAC-SHA1-96 */
        case IMB_AUTH_HMAC_SHA_224:
                return 14; /* HMAC-SHA2-224_112 */
        case IMB_AUTH_HMAC_SHA_256:
                return 16;
        case IMB_AUTH_HMAC_SHA_384:
                return 24;
        case IMB_AUTH_HMAC_SHA_512:
                return 32;
        case IMB_AUTH_MD5:
                return 12; /* HMAC-MD5-96 */
        case IMB_AUTH_AES_XCBC:
                return 12;
        default:
                return 0;
        }
}

static inline int
jc_tag_len_ok(const IMB_HASH_ALG h, const IMB_JOB *j)
{
        const uint64_t t = j->auth_tag_output_len_in_bytes;

        switch (h) {
        case IMB_AUTH_HMAC_SHA_1:
        case IMB_AUTH_HMAC_SHA_224:
        case IMB_AUTH_HMAC_SHA_256:
        case IMB_AUTH_HMAC_SHA_384:
        case IMB_AUTH_HMAC_SHA_512:
        case IMB_AUTH_MD5:
        case IMB_AUTH_AES_XCBC:
                return t == jc_digest_full(h) || t == jc_digest_ipsec(h);
        case IMB_AUTH_SHA_1:
        case IMB_AUTH_SHA_224:
        case IMB_AUTH_SHA_256:
        case IMB_AUTH_SHA_384:
        case IMB_AUTH_SHA_512:
                return t == jc_digest_full(h);
        case IMB_AUTH_AES_GMAC:
        case IMB_AUTH_AES_GMAC_128:
        case IMB_AUTH_AES_GMAC_192:
        case IMB_AUTH_AES_GMAC_256:
        case IMB_AUTH_GHASH:
        case IMB_AUTH_SM4_GCM:
        case IMB_AUTH_AES_CMAC:
        case IMB_AUTH_AES_CMAC_BITLEN:
        case IMB_AUTH_AES_CMAC_256:
                return t >= 1 && t <= 16;
        case IMB_AUTH_GCM_SGL:
                /* tag is produced by the COMPLETE / ALL call only */
                if (j->sgl_state == IMB_SGL_COMPLETE || j->sgl_state == IMB_SGL_ALL)
                        return t >= 1 && t <= 16;
                return 1;
        case IMB_AUTH_AES_CCM:
                return t >= 4 && t <= 16 && (t & 1) == 0; /* RFC 3610: M in {4,6,..,16} */
        case IMB_AUTH_PON_CRC_BIP:
                return t == 8; /* BIP-32 + CRC-32 */
        case IMB_AUTH_ZUC_EIA3_BITLEN:
        case IMB_AUTH_DOCSIS_CRC32:
        case IMB_AUTH_SNOW3G_UIA2_BITLEN:
        case IMB_AUTH_KASUMI_UIA1:
                return t == 4;
        case IMB_AUTH_ZUC256_EIA3_BITLEN:
                return t == 4 || t == 8 || t == 16;
        case IMB_AUTH_POLY1305:
        case IMB_AUTH_CHACHA20_POLY1305:
        case IMB_AUTH_CHACHA20_POLY1305_SGL:
        case IMB_AUTH_SNOW_V_AEAD:
                return t == 16;
        case IMB_AUTH_SM3:
        case IMB_AUTH_HMAC_SM3:
                return t >= 1 && t <= IMB_SM3_DIGEST_SIZE;
        default:
                if (jc_is_crc(h))
                        return t == 4;
                return 1; /* NULL, CUSTOM */
        }
}

static inline int
jc_tag_ptr_needed(const IMB_HASH_ALG h, const IMB_JOB *j)
{
        if (!jc_hash_known(h) || h == IMB_AUTH_NULL || h == IMB_AUTH_CUSTOM)
                return 0;
        if (h == IMB_AUTH_GCM_SGL)
                return j->sgl_state == IMB_SGL_COMPLETE || j->sgl_state == IMB_SGL_ALL;
        return 1;
}

/* 0 = src not needed by the hash; 1 = always; 2 = only when the hash length is non-zero */
static inline int
jc_hash_src_rule(const IMB_HASH_ALG h)
{
        switch (h) {
        case IMB_AUTH_HMAC_SHA_1:
        case IMB_AUTH_HMAC_SHA_224:
        case IMB_AUTH_HMAC_SHA_256:
        case IMB_AUTH_HMAC_SHA_384:
        case IMB_AUTH_HMAC_SHA_512:
        case IMB_AUTH_MD5:
        case IMB_AUTH_AES_XCBC:
        case IMB_AUTH_AES_CMAC:
        case IMB_AUTH_AES_CMAC_BITLEN:
        case IMB_AUTH_AES_CMAC_256:
        case IMB_AUTH_SHA_1:
        case IMB_AUTH_SHA_224:
        case IMB_AUTH_SHA_256:
        case IMB_AUTH_SHA_384:
        case IMB_AUTH_SHA_512:
        case IMB_AUTH_ZUC_EIA3_BITLEN:
        case IMB_AUTH_ZUC256_EIA3_BITLEN:
        case IMB_AUTH_SNOW3G_UIA2_BITLEN:
        case IMB_AUTH_KASUMI_UIA1:
        case IMB_AUTH_POLY1305:
        case IMB_AUTH_SM3:
        case IMB_AUTH_HMAC_SM3:
                return 1;
        case IMB_AUTH_AES_GMAC_128:
        case IMB_AUTH_AES_GMAC_192:
        case IMB_AUTH_AES_GMAC_256:
        case IMB_AUTH_GHASH:
        case IMB_AUTH_AES_CCM:
        case IMB_AUTH_CHACHA20_POLY1305:
        case IMB_AUTH_CHACHA20_POLY1305_SGL:
                return 2;
        default:
                return jc_is_crc(h) ? 2 : 0;
        }
}

static inline int
jc_hash_len_ok(const IMB_HASH_ALG h, const IMB_JOB *j)
{
        const uint64_t n = j->msg_len_to_hash_in_bytes; /* same storage as .._in_bits */

        switch (h) {
        case IMB_AUTH_HMAC_SHA_1:
        case IMB_AUTH_HMAC_SHA_224:
        case IMB_AUTH_HMAC_SHA_256:
        case IMB_AUTH_HMAC_SHA_384:
        case IMB_AUTH_HMAC_SHA_512:
        case IMB_AUTH_MD5:
                return n != 0 && n <= SPEC_MB_MAX_LEN16;
        case IMB_AUTH_HMAC_SM3:
                return n != 0;
        case IMB_AUTH_AES_XCBC:
        case IMB_AUTH_AES_CCM:
        case IMB_AUTH_AES_CMAC:
        case IMB_AUTH_AES_CMAC_256:
        case IMB_AUTH_SHA_1:
        case IMB_AUTH_SHA_224:
        case IMB_AUTH_SHA_256:
        case IMB_AUTH_SHA_384:
        case IMB_AUTH_SHA_512:
        case IMB_AUTH_DOCSIS_CRC32:
                return n <= SPEC_MB_MAX_LEN16;
        case IMB_AUTH_AES_CMAC_BITLEN:
                return n <= SPEC_MB_MAX_LEN16 * 8;
        case IMB_AUTH_PON_CRC_BIP:
                return (n & 3) == 0 && n >= 8 && n <= SPEC_PON_MAX_LEN;
        case IMB_AUTH_ZUC_EIA3_BITLEN:
        case IMB_AUTH_ZUC256_EIA3_BITLEN:
                return n >= 1 && n <= SPEC_ZUC_MAX_BITLEN;
        case IMB_AUTH_SNOW3G_UIA2_BITLEN:
                return n != 0 && n <= SPEC_SNOW3G_MAX_BITLEN;
        case IMB_AUTH_KASUMI_UIA1:
                /* at least one block + the padding byte; at most 20000 bits */
                return n >= 9 && n <= SPEC_KASUMI_MAX_BITLEN / 8;
        default:
                return 1;
        }
}

#define JC_ROW(cond, err)                                                                          \
        do {                                                                                       \
                if (cond) {                                                                        \
                        es |= es_of(err);                                                          \
                        any = 1;                                                                   \
                }                                                                                  \
        } while (0)

/*
 * Returns non-zero iff the job violates at least one documented constraint;
 * *errs receives the set of error codes naming a violated constraint.
 */
static inline int
spec_job_invalid(const struct jc_view *v, errset_t *errs)
{
        const IMB_JOB *j = v->job;
        const IMB_CIPHER_MODE cm = v->cm;
        const IMB_HASH_ALG ha = v->ha;
        const IMB_CIPHER_DIRECTION dir = v->dir;
        const uint64_t klen = v->klen;
        errset_t es = 0;
        int any = 0;
        const int dir_ok = (dir == IMB_DIR_ENCRYPT || dir == IMB_DIR_DECRYPT);
        const int sgl_cipher = JC_IN2(cm, IMB_CIPHER_GCM_SGL, IMB_CIPHER_CHACHA20_POLY1305_SGL);
        const int sgl_state_ok = (j->sgl_state == IMB_SGL_INIT || j->sgl_state == IMB_SGL_UPDATE ||
                                  j->sgl_state == IMB_SGL_COMPLETE || j->sgl_state == IMB_SGL_ALL);

        /* ---- A. selectors ---- */
        JC_ROW(!dir_ok && cm != IMB_CIPHER_NULL, IMB_ERR_JOB_CIPH_DIR);
        JC_ROW(!jc_cipher_known(cm), IMB_ERR_CIPH_MODE);
        JC_ROW(!jc_hash_known(ha), IMB_ERR_HASH_ALGO);

        /* ---- B. AEAD / combined pairings are exclusive ---- */
        JC_ROW(jc_cipher_required_hash(cm) != 0 && ha != jc_cipher_required_hash(cm),
               IMB_ERR_HASH_ALGO);
        JC_ROW(jc_hash_required_cipher(ha) != 0 && cm != jc_hash_required_cipher(ha),
               IMB_ERR_CIPH_MODE);
        /* stand-alone GMAC is not to be combined with GCM */
        JC_ROW(JC_IN3(ha, IMB_AUTH_AES_GMAC_128, IMB_AUTH_AES_GMAC_192, IMB_AUTH_AES_GMAC_256) &&
                       cm == IMB_CIPHER_GCM,
               IMB_ERR_CIPH_MODE);

        /* ---- C. cipher side ---- */
        JC_ROW(!jc_key_len_ok(cm, klen, j), IMB_ERR_JOB_KEY_LEN);
        if (jc_cipher_needs_src_dst_always(cm)) {
                JC_ROW(j->src == NULL, IMB_ERR_JOB_NULL_SRC);
                JC_ROW(j->dst == NULL, IMB_ERR_JOB_NULL_DST);
        }
        if (jc_cipher_needs_src_dst_if_len(cm, j)) {
                JC_ROW(j->msg_len_to_cipher_in_bytes != 0 && j->src == NULL, IMB_ERR_JOB_NULL_SRC);
                JC_ROW(j->msg_len_to_cipher_in_bytes != 0 && j->dst == NULL, IMB_ERR_JOB_NULL_DST);
        }
        JC_ROW(jc_cipher_needs_iv(cm, j) && j->iv == NULL, IMB_ERR_JOB_NULL_IV);
        JC_ROW((jc_cipher_keys_needed(cm, dir, j) & 1) && j->enc_keys == NULL,
               IMB_ERR_JOB_NULL_KEY);
        JC_ROW((jc_cipher_keys_needed(cm, dir, j) & 2) && j->dec_keys == NULL,
               IMB_ERR_JOB_NULL_KEY);
        /* 3DES: the key pointer is an array of three schedule pointers */
        JC_ROW(cm == IMB_CIPHER_DES3 && dir_ok &&
                       ((dir == IMB_DIR_ENCRYPT) ? j->enc_keys : j->dec_keys) != NULL &&
                       v->des3_key_has_null,
               IMB_ERR_JOB_NULL_KEY);
        JC_ROW(!jc_iv_len_ok(cm, klen, j), IMB_ERR_JOB_IV_LEN);
        JC_ROW(!jc_cipher_len_ok(cm, dir, v), IMB_ERR_JOB_CIPH_LEN);
        JC_ROW(cm == IMB_CIPHER_CBCS_1_9 && j->cipher_fields.CBCS.next_iv == NULL,
               IMB_ERR_JOB_NULL_NEXT_IV);
        JC_ROW(cm == IMB_CIPHER_CUSTOM && j->cipher_func == NULL, EFAULT);
        /* SGL ciphers */
        JC_ROW(sgl_cipher && !sgl_state_ok, IMB_ERR_JOB_SGL_STATE);
        if (sgl_cipher && j->sgl_state == IMB_SGL_ALL) {
                JC_ROW(j->num_sgl_io_segs != 0 && j->sgl_io_segs == NULL, IMB_ERR_JOB_NULL_SRC);
                JC_ROW(j->sgl_io_segs != NULL && v->sgl_seg_null_in, IMB_ERR_JOB_NULL_SRC);
                JC_ROW(j->sgl_io_segs != NULL && v->sgl_seg_null_out, IMB_ERR_JOB_NULL_DST);
        }
        /* PON: out-of-place only relative to the offset, PLI must fit the buffer */
        if (cm == IMB_CIPHER_PON_AES_CNTR && j->src != NULL && j->dst != NULL) {
                JC_ROW((j->src + j->cipher_start_src_offset_in_bytes) != j->dst, EINVAL);
                if (j->msg_len_to_cipher_in_bytes >= 4) {
                        const uint64_t h = v->pon_xgem_hdr;
                        /* header is big endian on the wire; PLI = 14 most significant bits */
                        const uint64_t be = ((h & 0xffULL) << 56) | ((h & 0xff00ULL) << 40) |
                                            ((h & 0xff0000ULL) << 24) | ((h & 0xff000000ULL) << 8) |
                                            ((h >> 8) & 0xff000000ULL) | ((h >> 24) & 0xff0000ULL) |
                                            ((h >> 40) & 0xff00ULL) | (h >> 56);
                        const uint64_t pli = be >> 50;

                        JC_ROW(pli > 4 && (pli - 4) > j->msg_len_to_cipher_in_bytes - 4,
                               IMB_ERR_JOB_PON_PLI);
                }
        }

        /* ---- D. hash side ---- */
        JC_ROW(jc_hash_src_rule(ha) == 1 && j->src == NULL, IMB_ERR_JOB_NULL_SRC);
        JC_ROW(jc_hash_src_rule(ha) == 2 && j->msg_len_to_hash_in_bytes != 0 && j->src == NULL,
               IMB_ERR_JOB_NULL_SRC);
        JC_ROW(JC_IN2(ha, IMB_AUTH_CHACHA20_POLY1305, IMB_AUTH_CHACHA20_POLY1305_SGL) &&
                       j->msg_len_to_hash_in_bytes != 0 && j->dst == NULL,
               IMB_ERR_JOB_NULL_DST);
        JC_ROW(!jc_tag_len_ok(ha, j), IMB_ERR_JOB_AUTH_TAG_LEN);
        JC_ROW(jc_tag_ptr_needed(ha, j) && j->auth_tag_output == NULL, IMB_ERR_JOB_NULL_AUTH);
        JC_ROW(!jc_hash_len_ok(ha, j), IMB_ERR_JOB_AUTH_LEN);
        /* algorithm specific pointers */
        if (JC_IN3(ha, IMB_AUTH_HMAC_SHA_1, IMB_AUTH_HMAC_SHA_224, IMB_AUTH_HMAC_SHA_256) ||
            JC_IN3(ha, IMB_AUTH_HMAC_SHA_384, IMB_AUTH_HMAC_SHA_512, IMB_AUTH_MD5) ||
            ha == IMB_AUTH_HMAC_SM3) {
                JC_ROW(j->u.HMAC._hashed_auth_key_xor_ipad == NULL, IMB_ERR_JOB_NULL_HMAC_IPAD);
                JC_ROW(j->u.HMAC._hashed_auth_key_xor_opad == NULL, IMB_ERR_JOB_NULL_HMAC_OPAD);
        }
        if (ha == IMB_AUTH_AES_XCBC) {
                JC_ROW(j->u.XCBC._k1_expanded == NULL, IMB_ERR_JOB_NULL_XCBC_K1_EXP);
                JC_ROW(j->u.XCBC._k2 == NULL, IMB_ERR_JOB_NULL_XCBC_K2);
                JC_ROW(j->u.XCBC._k3 == NULL, IMB_ERR_JOB_NULL_XCBC_K3);
        }
        if (JC_IN3(ha, IMB_AUTH_AES_CMAC, IMB_AUTH_AES_CMAC_BITLEN, IMB_AUTH_AES_CMAC_256))
                JC_ROW(j->u.CMAC._key_expanded == NULL || j->u.CMAC._skey1 == NULL ||
                               j->u.CMAC._skey2 == NULL,
                       IMB_ERR_JOB_NULL_KEY);
        if (JC_IN3(ha, IMB_AUTH_AES_GMAC, IMB_AUTH_SM4_GCM, IMB_AUTH_GCM_SGL)) {
                const int aad_used = (ha != IMB_AUTH_GCM_SGL) || j->sgl_state == IMB_SGL_INIT ||
                                     j->sgl_state == IMB_SGL_ALL;

                JC_ROW(aad_used && j->u.GCM.aad_len_in_bytes > 0 && j->u.GCM.aad == NULL,
                       IMB_ERR_JOB_NULL_AAD);
                JC_ROW(ha == IMB_AUTH_GCM_SGL && j->u.GCM.ctx == NULL, IMB_ERR_JOB_NULL_SGL_CTX);
        }
        if (JC_IN3(ha, IMB_AUTH_AES_GMAC_128, IMB_AUTH_AES_GMAC_192, IMB_AUTH_AES_GMAC_256)) {
                JC_ROW(j->u.GMAC._key == NULL, IMB_ERR_JOB_NULL_AUTH_KEY);
                JC_ROW(j->u.GMAC._iv == NULL, IMB_ERR_JOB_NULL_IV);
                JC_ROW(j->u.GMAC.iv_len_in_bytes == 0, IMB_ERR_JOB_IV_LEN);
        }
        if (ha == IMB_AUTH_GHASH) {
                JC_ROW(j->u.GHASH._key == NULL, IMB_ERR_JOB_NULL_AUTH_KEY);
                JC_ROW(j->u.GHASH._init_tag == NULL, IMB_ERR_JOB_NULL_GHASH_INIT_TAG);
        }
        JC_ROW(ha == IMB_AUTH_CUSTOM && j->hash_func == NULL, EFAULT);
        if (ha == IMB_AUTH_AES_CCM) {
                JC_ROW(j->u.CCM.aad_len_in_bytes > IMB_CCM_AAD_MAX_SIZE, IMB_ERR_JOB_AAD_LEN);
                JC_ROW(j->u.CCM.aad_len_in_bytes > 0 && j->u.CCM.aad == NULL,
                       IMB_ERR_JOB_NULL_AAD);
                /* one message for cipher and authentication */
                JC_ROW(j->msg_len_to_cipher_in_bytes != j->msg_len_to_hash_in_bytes,
                       IMB_ERR_JOB_CIPH_LEN);
                JC_ROW(j->cipher_start_src_offset_in_bytes != j->hash_start_src_offset_in_bytes,
                       IMB_ERR_JOB_SRC_OFFSET);
        }
        if (JC_IN2(ha, IMB_AUTH_ZUC_EIA3_BITLEN, IMB_AUTH_ZUC256_EIA3_BITLEN)) {
                JC_ROW(j->u.ZUC_EIA3._key == NULL, IMB_ERR_JOB_NULL_KEY);
                JC_ROW(ha == IMB_AUTH_ZUC_EIA3_BITLEN && j->u.ZUC_EIA3._iv == NULL,
                       IMB_ERR_JOB_NULL_IV);
                JC_ROW(ha == IMB_AUTH_ZUC256_EIA3_BITLEN && j->u.ZUC_EIA3._iv == NULL &&
                               j->u.ZUC_EIA3._iv23 == NULL,
                       IMB_ERR_JOB_NULL_IV);
        }
        if (ha == IMB_AUTH_SNOW3G_UIA2_BITLEN) {
                JC_ROW(j->u.SNOW3G_UIA2._key == NULL, IMB_ERR_JOB_NULL_KEY);
                JC_ROW(j->u.SNOW3G_UIA2._iv == NULL, IMB_ERR_JOB_NULL_IV);
        }
        JC_ROW(ha == IMB_AUTH_KASUMI_UIA1 && j->u.KASUMI_UIA1._key == NULL, IMB_ERR_JOB_NULL_KEY);
        JC_ROW(ha == IMB_AUTH_POLY1305 && j->u.POLY1305._key == NULL, IMB_ERR_JOB_NULL_AUTH_KEY);
        if (JC_IN2(ha, IMB_AUTH_CHACHA20_POLY1305, IMB_AUTH_CHACHA20_POLY1305_SGL)) {
                JC_ROW(j->u.CHACHA20_POLY1305.aad == NULL &&
                               j->u.CHACHA20_POLY1305.aad_len_in_bytes > 0,
                       IMB_ERR_JOB_NULL_AAD);
                JC_ROW(ha == IMB_AUTH_CHACHA20_POLY1305_SGL &&
                               j->u.CHACHA20_POLY1305.ctx == NULL,
                       IMB_ERR_JOB_NULL_SGL_CTX);
        }
        JC_ROW(ha == IMB_AUTH_SNOW_V_AEAD && j->u.SNOW_V_AEAD.aad_len_in_bytes > 0 &&
                       j->u.SNOW_V_AEAD.aad == NULL,
               IMB_ERR_JOB_NULL_AAD);
        if (ha == IMB_AUTH_DOCSIS_CRC32) {
                /* Ethernet PDU inside a DOCSIS frame: ciphering starts at least 12 bytes
                 * (DA+SA) after the CRC start and covers the 4-byte CRC */
                if (j->msg_len_to_cipher_in_bytes && j->msg_len_to_hash_in_bytes) {
                        JC_ROW(j->msg_len_to_cipher_in_bytes +
                                               (IMB_DOCSIS_CRC32_MIN_ETH_PDU_SIZE - 2 -
                                                IMB_DOCSIS_CRC32_TAG_SIZE) >
                                       j->msg_len_to_hash_in_bytes,
                               IMB_ERR_JOB_CIPH_LEN);
                        JC_ROW(j->cipher_start_src_offset_in_bytes <
                                       j->hash_start_src_offset_in_bytes + 12,
                               IMB_ERR_JOB_SRC_OFFSET);
                }
                JC_ROW((dir == IMB_DIR_ENCRYPT && j->chain_order != IMB_ORDER_HASH_CIPHER) ||
                               (dir == IMB_DIR_DECRYPT && j->chain_order != IMB_ORDER_CIPHER_HASH),
                       IMB_ERR_JOB_CHAIN_ORDER);
        }

        *errs = es;
        return any;
}

#endif /* VERIF_JOB_CONSTRAINTS_H */
