/* Under NATIVE_REPLAY the contract clauses vanish so the same harness text compiles with gcc. */
#ifndef VERIF_CPROVER_SHIM_H
#define VERIF_CPROVER_SHIM_H
#ifdef NATIVE_REPLAY
#define __CPROVER_requires(...)
#define __CPROVER_ensures(...)
#define __CPROVER_assigns(...)
#define __CPROVER_frees(...)
#define __CPROVER_assert(c, m) ((void) 0)
#define __CPROVER_assume(c) ((void) 0)
#define __CPROVER_cover(c) ((void) 0)
#endif
#endif
