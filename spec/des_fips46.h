/*
 * FIPS 46-3 DES, textbook form: bits numbered 1..64 from the most significant bit of the first
 * byte.  Written from the standard's tables (IP, IP^-1, E, P, S1..S8, PC-1, PC-2, shift
 * schedule); used as the oracle for lib/x86_64/des_basic.c and des_key.c.  The file is
 * validated natively against the classic worked example (key 133457799BBCDFF1, plaintext
 * 0123456789ABCDEF -> 85E813540F0AB405) by spec/selftest_des.c at setup time.
 */
#ifndef VERIF_DES_FIPS46_H
#define VERIF_DES_FIPS46_H
#include <stdint.h>

static const uint8_t FIPS_IP[64] = { 58, 50, 42, 34, 26, 18, 10, 2, 60, 52, 44, 36, 28, 20, 12, 4,
                                     62, 54, 46, 38, 30, 22, 14, 6, 64, 56, 48, 40, 32, 24, 16, 8,
                                     57, 49, 41, 33, 25, 17, 9,  1, 59, 51, 43, 35, 27, 19, 11, 3,
                                     61, 53, 45, 37, 29, 21, 13, 5, 63, 55, 47, 39, 31, 23, 15, 7 };
static const uint8_t FIPS_FP[64] = { 40, 8, 48, 16, 56, 24, 64, 32, 39, 7, 47, 15, 55, 23, 63, 31,
                                     38, 6, 46, 14, 54, 22, 62, 30, 37, 5, 45, 13, 53, 21, 61, 29,
                                     36, 4, 44, 12, 52, 20, 60, 28, 35, 3, 43, 11, 51, 19, 59, 27,
                                     34, 2, 42, 10, 50, 18, 58, 26, 33, 1, 41, 9,  49, 17, 57, 25 };
static const uint8_t FIPS_E[48] = { 32, 1,  2,  3,  4,  5,  4,  5,  6,  7,  8,  9,  8,  9,  10, 11,
                                    12, 13, 12, 13, 14, 15, 16, 17, 16, 17, 18, 19, 20, 21, 20, 21,
                                    22, 23, 24, 25, 24, 25, 26, 27, 28, 29, 28, 29, 30, 31, 32, 1 };
static const uint8_t FIPS_P[32] = { 16, 7, 20, 21, 29, 12, 28, 17, 1,  15, 23, 26, 5,  18, 31, 10,
                                    2,  8, 24, 14, 32, 27, 3,  9,  19, 13, 30, 6,  22, 11, 4,  25 };
static const uint8_t FIPS_PC1[56] = { 57, 49, 41, 33, 25, 17, 9,  1,  58, 50, 42, 34, 26, 18,
                                      10, 2,  59, 51, 43, 35, 27, 19, 11, 3,  60, 52, 44, 36,
                                      63, 55, 47, 39, 31, 23, 15, 7,  62, 54, 46, 38, 30, 22,
                                      14, 6,  61, 53, 45, 37, 29, 21, 13, 5,  28, 20, 12, 4 };
static const uint8_t FIPS_PC2[48] = { 14, 17, 11, 24, 1,  5,  3,  28, 15, 6,  21, 10, 23, 19, 12, 4,
                                      26, 8,  16, 7,  27, 20, 13, 2,  41, 52, 31, 37, 47, 55, 30, 40,
                                      51, 45, 33, 48, 44, 49, 39, 56, 34, 53, 46, 42, 50, 36, 29, 32 };
static const uint8_t FIPS_SHIFTS[16] = { 1, 1, 2, 2, 2, 2, 2, 2, 1, 2, 2, 2, 2, 2, 2, 1 };
static const uint8_t FIPS_S[8][64] = {
        { 14, 4,  13, 1,  2,  15, 11, 8,  3,  10, 6,  12, 5,  9,  0,  7,  0,  15, 7,  4,  14, 2,
          13, 1,  10, 6,  12, 11, 9,  5,  3,  8,  4,  1,  14, 8,  13, 6,  2,  11, 15, 12, 9,  7,
          3,  10, 5,  0,  15, 12, 8,  2,  4,  9,  1,  7,  5,  11, 3,  14, 10, 0,  6,  13 },
        { 15, 1,  8,  14, 6,  11, 3,  4,  9,  7,  2,  13, 12, 0,  5,  10, 3,  13, 4,  7,  15, 2,
          8,  14, 12, 0,  1,  10, 6,  9,  11, 5,  0,  14, 7,  11, 10, 4,  13, 1,  5,  8,  12, 6,
          9,  3,  2,  15, 13, 8,  10, 1,  3,  15, 4,  2,  11, 6,  7,  12, 0,  5,  14, 9 },
        { 10, 0,  9,  14, 6,  3,  15, 5,  1,  13, 12, 7,  11, 4,  2,  8,  13, 7,  0,  9,  3,  4,
          6,  10, 2,  8,  5,  14, 12, 11, 15, 1,  13, 6,  4,  9,  8,  15, 3,  0,  11, 1,  2,  12,
          5,  10, 14, 7,  1,  10, 13, 0,  6,  9,  8,  7,  4,  15, 14, 3,  11, 5,  2,  12 },
        { 7,  13, 14, 3,  0,  6,  9,  10, 1,  2,  8,  5,  11, 12, 4,  15, 13, 8,  11, 5,  6,  15,
          0,  3,  4,  7,  2,  12, 1,  10, 14, 9,  10, 6,  9,  0,  12, 11, 7,  13, 15, 1,  3,  14,
          5,  2,  8,  4,  3,  15, 0,  6,  10, 1,  13, 8,  9,  4,  5,  11, 12, 7,  2,  14 },
        { 2,  12, 4,  1,  7,  10, 11, 6,  8,  5,  3,  15, 13, 0,  14, 9,  14, 11, 2,  12, 4,  7,
          13, 1,  5,  0,  15, 10, 3,  9,  8,  6,  4,  2,  1,  11, 10, 13, 7,  8,  15, 9,  12, 5,
          6,  3,  0,  14, 11, 8,  12, 7,  1,  14, 2,  13, 6,  15, 0,  9,  10, 4,  5,  3 },
        { 12, 1,  10, 15, 9,  2,  6,  8,  0,  13, 3,  4,  14, 7,  5,  11, 10, 15, 4,  2,  7,  12,
          9,  5,  6,  1,  13, 14, 0,  11, 3,  8,  9,  14, 15, 5,  2,  8,  12, 3,  7,  0,  4,  10,
          1,  13, 11, 6,  4,  3,  2,  12, 9,  5,  15, 10, 11, 14, 1,  7,  6,  0,  8,  13 },
        { 4,  11, 2,  14, 15, 0,  8,  13, 3,  12, 9,  7,  5,  10, 6,  1,  13, 0,  11, 7,  4,  9,
          1,  10, 14, 3,  5,  12, 2,  15, 8,  6,  1,  4,  11, 13, 12, 3,  7,  14, 10, 15, 6,  8,
          0,  5,  9,  2,  6,  11, 13, 8,  1,  4,  10, 7,  9,  5,  0,  15, 14, 2,  3,  12 },
        { 13, 2,  8,  4,  6,  15, 11, 1,  10, 9,  3,  14, 5,  0,  12, 7,  1,  15, 13, 8,  10, 3,
          7,  4,  12, 5,  6,  11, 0,  14, 9,  2,  7,  11, 4,  1,  9,  12, 14, 2,  0,  6,  10, 13,
          15, 3,  5,  8,  2,  1,  14, 7,  4,  10, 8,  13, 15, 12, 9,  0,  3,  5,  6,  11 }
};

/* generic FIPS-numbered permutation: output bit i (1..n, MSB first of an n-bit value) = input bit tab[i-1]
 * of an m-bit value */
static inline uint64_t
fips_perm(const uint64_t in, const unsigned m, const uint8_t *tab, const unsigned n)
{
        uint64_t out = 0;

        for (unsigned i = 0; i < n; i++)
                out = (out << 1) | ((in >> (m - tab[i])) & 1);
        return out;
}

/* round keys K1..K16 as 48-bit values (bit 1 = MSB) */
static inline void
fips_key_schedule(const uint64_t key64, uint64_t rk[16])
{
        uint64_t cd = fips_perm(key64, 64, FIPS_PC1, 56);
        uint32_t c = (uint32_t) (cd >> 28) & 0x0fffffff, d = (uint32_t) cd & 0x0fffffff;

        for (unsigned n = 0; n < 16; n++) {
                for (unsigned s = 0; s < FIPS_SHIFTS[n]; s++) {
                        c = ((c << 1) | (c >> 27)) & 0x0fffffff;
                        d = ((d << 1) | (d >> 27)) & 0x0fffffff;
                }
                rk[n] = fips_perm(((uint64_t) c << 28) | d, 56, FIPS_PC2, 48);
        }
}

/* f(R, K): R 32 bits, K 48 bits */
static inline uint32_t
fips_f(const uint32_t r, const uint64_t k)
{
        const uint64_t x = fips_perm(r, 32, FIPS_E, 48) ^ k;
        uint32_t s = 0;

        for (unsigned b = 0; b < 8; b++) {
                const unsigned six = (unsigned) (x >> (42 - 6 * b)) & 0x3f;
                const unsigned row = ((six >> 4) & 2) | (six & 1), col = (six >> 1) & 0xf;

                s = (s << 4) | FIPS_S[b][row * 16 + col];
        }
        return (uint32_t) fips_perm(s, 32, FIPS_P, 32);
}

/* one block with given round keys; enc != 0: K1..K16, else K16..K1.  Block as a 64-bit value,
 * bit 1 = MSB (i.e. the big-endian image of the 8 bytes) */
static inline uint64_t
fips_des_block_rk(const uint64_t block, const uint64_t rk[16], const int enc)
{
        const uint64_t ip = fips_perm(block, 64, FIPS_IP, 64);
        uint32_t l = (uint32_t) (ip >> 32), r = (uint32_t) ip;

        for (unsigned n = 0; n < 16; n++) {
                const uint32_t t = l ^ fips_f(r, rk[enc ? n : 15 - n]);

                l = r;
                r = t;
        }
        return fips_perm(((uint64_t) r << 32) | l, 64, FIPS_FP, 64);
}

static inline uint64_t
fips_be64(const uint8_t *p)
{
        uint64_t v = 0;

        for (unsigned i = 0; i < 8; i++)
                v = (v << 8) | p[i];
        return v;
}
#endif
