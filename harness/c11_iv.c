/*
 * C11: the 3GPP IV generators of the REAL lib/x86_64/{zuc,snow3g,kasumi}_iv.c, byte by byte
 * against the layouts of TS 35.221 (128-EEA3 / 128-EIA3), TS 35.215 (UEA2 / UIA2) and
 * TS 35.201 (f8 / f9), for ALL count / bearer / direction / fresh values; invalid arguments are
 * refused with -1 and nothing is written.
 */
#include <stdint.h>
#include <string.h>
#include <stdlib.h>
#include "x86_64/zuc_iv.c"
#include "x86_64/snow3g_iv.c"
#include "x86_64/kasumi_iv.c"

unsigned nondet_unsigned(void);
_Bool nondet_bool(void);

static uint8_t be(const uint32_t v, const unsigned i) { return (uint8_t) (v >> (24 - 8 * i)); }

void
h_iv_gen(void)
{
        const uint32_t count = nondet_unsigned(), fresh = nondet_unsigned();
        const uint8_t bearer = (uint8_t) nondet_unsigned(), dir = (uint8_t) nondet_unsigned();
        uint8_t iv[24], pre[24];
        const unsigned which = nondet_unsigned();
        const unsigned q = nondet_unsigned();
        int r, valid, len;

        __CPROVER_assume(q < 24);
        for (unsigned i = 0; i < 24; i++)
                pre[i] = iv[i] = (uint8_t) nondet_unsigned();
        uint8_t e[16];
        memset(e, 0, sizeof(e));
        if (which == 0) { /* 128-EEA3: COUNT | BEARER DIR 00 | 0 0 0 | repeated */
                r = zuc_eea3_iv_gen(count, bearer, dir, iv); valid = bearer < 32 && dir < 2; len = 16;
                for (unsigned i = 0; i < 4; i++) e[i] = be(count, i);
                e[4] = (uint8_t) ((bearer << 3) | (dir << 2));
                for (unsigned i = 0; i < 8; i++) e[8 + i] = e[i];
        } else if (which == 1) { /* 128-EIA3 */
                r = zuc_eia3_iv_gen(count, bearer, dir, iv); valid = bearer < 32 && dir < 2; len = 16;
                for (unsigned i = 0; i < 4; i++) e[i] = be(count, i);
                e[4] = (uint8_t) (bearer << 3);
                for (unsigned i = 0; i < 8; i++) e[8 + i] = e[i];
                e[8] ^= (uint8_t) (dir << 7);
                e[14] ^= (uint8_t) (dir << 7);
        } else if (which == 2) { /* UEA2: COUNT | BEARER DIR 0..0 | COUNT | BEARER DIR 0..0 */
                r = snow3g_f8_iv_gen(count, bearer, dir, iv); valid = bearer < 32 && dir < 2; len = 16;
                for (unsigned i = 0; i < 4; i++) e[i] = e[8 + i] = be(count, i);
                e[4] = e[12] = (uint8_t) ((bearer << 3) | (dir << 2));
        } else if (which == 3) { /* UIA2: COUNT | FRESH | COUNT^(DIR<<31) | FRESH^(DIR<<15) */
                r = snow3g_f9_iv_gen(count, fresh, dir, iv); valid = dir < 2; len = 16;
                for (unsigned i = 0; i < 4; i++) {
                        e[i] = be(count, i); e[4 + i] = be(fresh, i);
                        e[8 + i] = be(count ^ ((uint32_t) dir << 31), i); e[12 + i] = be(fresh ^ ((uint32_t) dir << 15), i);
                }
        } else if (which == 4) { /* KASUMI f8: COUNT | BEARER DIR 00 | 0 0 0 */
                r = kasumi_f8_iv_gen(count, bearer, dir, iv); valid = bearer < 32 && dir < 2; len = 8;
                for (unsigned i = 0; i < 4; i++) e[i] = be(count, i);
                e[4] = (uint8_t) ((bearer << 3) | (dir << 2));
        } else { /* KASUMI f9: COUNT | FRESH */
                r = kasumi_f9_iv_gen(count, fresh, iv); valid = 1; len = 8;
                for (unsigned i = 0; i < 4; i++) { e[i] = be(count, i); e[4 + i] = be(fresh, i); }
        }
        __CPROVER_assert(r == (valid ? 0 : -1), "[C11][C12] IV generator: 0 for valid arguments, -1 for bearer >= 32 or direction > 1");
        if (valid && (int) q < len)
                __CPROVER_assert(iv[q] == e[q], "[C11] IV byte = the 3GPP layout (COUNT, BEARER, DIRECTION, FRESH positions) for every argument value");
        else
                __CPROVER_assert(iv[q] == pre[q], "[C11][C07] IV generator writes nothing on refusal and nothing past the IV");
        __CPROVER_assert(!(which == 1 && dir == 1 && q == 14), "[VACUITY] EIA3 direction byte 14 watched");
}

void
h_iv_gen_null(void)
{
        const unsigned which = nondet_unsigned();
        int r;
        if (which == 0) r = zuc_eea3_iv_gen(1, 1, 1, NULL);
        else if (which == 1) r = zuc_eia3_iv_gen(1, 1, 1, NULL);
        else if (which == 2) r = snow3g_f8_iv_gen(1, 1, 1, NULL);
        else if (which == 3) r = snow3g_f9_iv_gen(1, 1, 1, NULL);
        else if (which == 4) r = kasumi_f8_iv_gen(1, 1, 1, NULL);
        else r = kasumi_f9_iv_gen(1, 1, NULL);
        __CPROVER_assert(r == -1, "[C12] IV generator: NULL output refused");
}
