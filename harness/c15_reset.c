/*
 * C15: every ooo_mgr_*_reset() of the REAL lib/x86_64/ooo_mgr_reset.c erases all prior state.
 * Two managers with arbitrary, independent prior contents are reset with the same lane count;
 * for an ARBITRARY byte index k (ghost, unconstrained => all bytes):
 *   k below road_block  -> the two results agree (nothing of the prior state survives)
 *   k at/after it       -> the byte is untouched (frame; the object ends with the struct, so an
 *                          overrun is a bounds failure)
 * and the free-lane stack holds exactly lanes 0..n-1.  Lane counts are those the variants
 * pass (scanned from lib/<variant>/mb_mgr_<variant>.c on every run -> c15_lanes.h).
 */
#include <stdlib.h>
#include <stdint.h>
#include <stddef.h>
#include "x86_64/ooo_mgr_reset.c"
#include "c15_lanes.h"

unsigned nondet_unsigned(void);
size_t nondet_size(void);

/* free-lane stack: nibble i (or byte i) holds lane i for i < n */
static int
stack_ok(const uint64_t v, const unsigned n)
{
        int nib = 1, byt = (n <= 8);

        for (unsigned i = 0; i < 16; i++)
                if (i < n && ((v >> (4 * i)) & 0xF) != i)
                        nib = 0;
        for (unsigned i = 0; i < 8; i++)
                if (i < n && ((v >> (8 * i)) & 0xFF) != i)
                        byt = 0;
        return nib || byt;
}

#define RESET_H(fn, TYPE)                                                                          \
        void h_##fn(void)                                                                          \
        {                                                                                          \
                TYPE *a = malloc(sizeof(TYPE)), *b = malloc(sizeof(TYPE));                         \
                const unsigned n = nondet_unsigned();                                              \
                const size_t k = nondet_size();                                                    \
                __CPROVER_assume(a != NULL && b != NULL);                                          \
                __CPROVER_assume(LANES_##fn(n));                                                   \
                __CPROVER_assume(k < sizeof(TYPE));                                                \
                const uint8_t pre_a = ((const uint8_t *) a)[k];                                    \
                fn(a, n);                                                                          \
                fn(b, n);                                                                          \
                if (k < offsetof(TYPE, road_block))                                                \
                        __CPROVER_assert(((const uint8_t *) a)[k] == ((const uint8_t *) b)[k],     \
                                         "[C15] " #fn ": no byte of the prior state survives");    \
                else                                                                               \
                        __CPROVER_assert(((const uint8_t *) a)[k] == pre_a,                        \
                                         "[C15] " #fn ": nothing at or after road_block written"); \
                __CPROVER_assert(stack_ok(a->unused_lanes, n),                                     \
                                 "[C15] " #fn ": every lane is on the free stack after reset");    \
                __CPROVER_assert(k != 0, "[VACUITY] reset harness reachable");                     \
        }

RESET_H(ooo_mgr_aes_reset, MB_MGR_AES_OOO)
RESET_H(ooo_mgr_docsis_aes_reset, MB_MGR_DOCSIS_AES_OOO)
RESET_H(ooo_mgr_cmac_reset, MB_MGR_CMAC_OOO)
RESET_H(ooo_mgr_ccm_reset, MB_MGR_CCM_OOO)
RESET_H(ooo_mgr_aes_xcbc_reset, MB_MGR_AES_XCBC_OOO)
RESET_H(ooo_mgr_hmac_sha1_reset, MB_MGR_HMAC_SHA_1_OOO)
RESET_H(ooo_mgr_hmac_sha224_reset, MB_MGR_HMAC_SHA_256_OOO)
RESET_H(ooo_mgr_hmac_sha256_reset, MB_MGR_HMAC_SHA_256_OOO)
RESET_H(ooo_mgr_hmac_sha384_reset, MB_MGR_HMAC_SHA_512_OOO)
RESET_H(ooo_mgr_hmac_sha512_reset, MB_MGR_HMAC_SHA_512_OOO)
RESET_H(ooo_mgr_hmac_md5_reset, MB_MGR_HMAC_MD5_OOO)
RESET_H(ooo_mgr_zuc_reset, MB_MGR_ZUC_OOO)
RESET_H(ooo_mgr_sha1_reset, MB_MGR_SHA_1_OOO)
RESET_H(ooo_mgr_sha256_reset, MB_MGR_SHA_256_OOO)
RESET_H(ooo_mgr_sha512_reset, MB_MGR_SHA_512_OOO)
RESET_H(ooo_mgr_des_reset, MB_MGR_DES_OOO)
RESET_H(ooo_mgr_snow3g_reset, MB_MGR_SNOW3G_OOO)
