/*
 * C16 (+C15 for reset_mgr=1): imb_set_pointers_mb_mgr() of the REAL lib/x86_64/alloc.c.
 * Ghost indexes (t, u) into ooo_mgr_table and a ghost byte index k into the whole block make
 * each statement hold for every table entry / pair of entries / byte:
 *   - entry t: pointer field == block + ALIGN(sizeof(IMB_MGR)) + sum of aligned sizes of the
 *     entries before it (an address-independent function of the block base), 64-byte aligned
 *     relative to the base, range inside imb_get_mb_mgr_size(), road block stamped
 *   - entries t < u: ranges disjoint
 *   - the table covers exactly the void *..._ooo fields of IMB_MGR up to end_ooo, no field twice
 *   - reset_mgr == 0: every byte that is not a manager pointer, the error code, flags, features,
 *     a road-block word or something the (modelled) variant init writes keeps its value: jobs[],
 *     earliest_job, next_job and all manager contents survive (re-attach after a crash)
 *   - reset_mgr != 0: every such byte is zero afterwards
 * Variant inits / CPU detection are other translation units: modelled (log only).
 */
#include <stdlib.h>
#include <stdint.h>
#include "x86_64/alloc.c"

unsigned nondet_unsigned(void);
size_t nondet_size(void);
uint64_t nondet_u64(void);

#define NTAB (sizeof(ooo_mgr_table) / sizeof(ooo_mgr_table[0]))
extern unsigned g_sp_n, g_rb_n, g_gp_misses;
extern size_t g_sp_off[], g_rb_off[];
extern uint8_t *g_sp_ptr[], *g_rb_ptr[];

/* ---- models of the other translation units ---- */
unsigned g_init_calls, g_init_arch, g_init_reset_arg;
void init_mb_mgr_sse_internal(IMB_MGR *s, const int r) { (void) s; g_init_calls++; g_init_arch = IMB_ARCH_SSE; g_init_reset_arg = (unsigned) r; }
void init_mb_mgr_avx2_internal(IMB_MGR *s, const int r) { (void) s; g_init_calls++; g_init_arch = IMB_ARCH_AVX2; g_init_reset_arg = (unsigned) r; }
void init_mb_mgr_avx512_internal(IMB_MGR *s, const int r) { (void) s; g_init_calls++; g_init_arch = IMB_ARCH_AVX512; g_init_reset_arg = (unsigned) r; }
uint64_t g_detected, g_adjusted;
uint64_t cpu_feature_detect(void) { return g_detected; }
uint64_t cpu_feature_adjust(const uint64_t flags, uint64_t features) { (void) flags; (void) features; return g_adjusted; }

/* specification of the layout: prefix sums of the aligned sizes, computed once */
static size_t g_spec_off[NTAB + 1];
static void
spec_layout(void)
{
        size_t off = ALIGN(sizeof(IMB_MGR), ALIGNMENT);

        for (unsigned j = 0; j < NTAB; j++) {
                g_spec_off[j] = off;
                off += ooo_mgr_table[j].ooo_aligned_size;
        }
        g_spec_off[NTAB] = off;
}
#define spec_offset(t) (g_spec_off[t])

/* is byte k of the block one the call is entitled to write (reset_mgr == 0)? */
static int
in_frame(const size_t k)
{
        if (k >= offsetof(IMB_MGR, imb_errno) && k < offsetof(IMB_MGR, imb_errno) + sizeof(int))
                return 1;
        if (k >= offsetof(IMB_MGR, flags) && k < offsetof(IMB_MGR, flags) + sizeof(uint64_t))
                return 1;
        if (k >= offsetof(IMB_MGR, features) && k < offsetof(IMB_MGR, features) + sizeof(uint64_t))
                return 1;
        if (k >= offsetof(IMB_MGR, aes128_ooo) && k < offsetof(IMB_MGR, end_ooo))
                return 1;
        for (unsigned j = 0; j < NTAB; j++) {
                const size_t rb = spec_offset(j) + ooo_mgr_table[j].road_block_offset;

                if (k >= rb && k < rb + sizeof(uint64_t))
                        return 1;
        }
        return 0;
}

/* ---- unit A: pointers and table, every entry / pair by full unwinding (constant indexes) ---- */
void
h_set_pointers(void)
{
        const size_t size = imb_get_mb_mgr_size();
        uint8_t *mem = malloc(size);
        const uint64_t flags = nondet_u64();
        const unsigned reset = nondet_unsigned();

        __CPROVER_assume(mem != NULL);
        spec_layout();
        g_detected = nondet_u64();
        g_adjusted = nondet_u64();

        IMB_MGR *ret = imb_set_pointers_mb_mgr(mem, flags, reset);

        __CPROVER_assert(ret == (IMB_MGR *) mem, "[C16] set-pointers returns the block it was given");
        __CPROVER_assert(ret->imb_errno == 0, "[C14] set-pointers leaves the error code at zero");
        __CPROVER_assert(ret->flags == flags && ret->features == g_adjusted, "[C16] flags stored, features = adjust(flags, detect())");
        __CPROVER_assert(NTAB == (offsetof(IMB_MGR, end_ooo) - offsetof(IMB_MGR, aes128_ooo)) / sizeof(void *),
                         "[C16] the table has one entry per void *..._ooo field of IMB_MGR up to end_ooo");
        __CPROVER_assert(g_sp_n == NTAB && g_rb_n == NTAB && g_gp_misses == 0,
                         "[C16] exactly one pointer store and one road-block stamp per table entry, every pointer read was set by this call");
        for (unsigned t = 0; t < NTAB; t++) {
                __CPROVER_assert(g_sp_off[t] == ooo_mgr_table[t].ooo_ptr_offset && g_sp_ptr[t] == mem + spec_offset(t),
                                 "[C16] manager pointer = base + fixed offset (sum of the aligned sizes before it)");
                __CPROVER_assert((spec_offset(t) & (ALIGNMENT - 1)) == 0, "[C16] manager offset is a multiple of 64");
                __CPROVER_assert(spec_offset(t) + ooo_mgr_table[t].ooo_aligned_size <= size, "[C16][C07] manager range lies inside imb_get_mb_mgr_size()");
                __CPROVER_assert(ooo_mgr_table[t].road_block_offset + sizeof(uint64_t) <= ooo_mgr_table[t].ooo_aligned_size, "[C16][C07] road block lies inside its manager");
                __CPROVER_assert(g_rb_ptr[t] == mem + spec_offset(t) && g_rb_off[t] == ooo_mgr_table[t].road_block_offset, "[C16] road block stamped in each manager at its road_block offset");
                __CPROVER_assert(ooo_mgr_table[t].ooo_ptr_offset >= offsetof(IMB_MGR, aes128_ooo) &&
                                         ooo_mgr_table[t].ooo_ptr_offset < offsetof(IMB_MGR, end_ooo) &&
                                         (ooo_mgr_table[t].ooo_ptr_offset - offsetof(IMB_MGR, aes128_ooo)) % sizeof(void *) == 0,
                                 "[C16] every table entry names a manager pointer field");
                for (unsigned u = 0; u < NTAB; u++)
                        if (t < u) {
                                __CPROVER_assert(spec_offset(t) + ooo_mgr_table[t].ooo_aligned_size <= spec_offset(u), "[C16] manager ranges are pairwise disjoint");
                                __CPROVER_assert(ooo_mgr_table[t].ooo_ptr_offset != ooo_mgr_table[u].ooo_ptr_offset, "[C16] no manager pointer field is listed twice");
                        }
        }
        /* each table row describes the struct the variants actually keep behind that pointer
         * (types taken from the reset call sites, c16_field_types.h) */
#define FIELD_TYPE(field, TYPE)                                                                    \
        for (unsigned t = 0; t < NTAB; t++)                                                        \
                if (ooo_mgr_table[t].ooo_ptr_offset == offsetof(IMB_MGR, field)) {                 \
                        __CPROVER_assert(ooo_mgr_table[t].road_block_offset == offsetof(TYPE, road_block), \
                                         "[C16] table row of " #field " places the road block where " #TYPE " has it"); \
                        __CPROVER_assert(ooo_mgr_table[t].ooo_aligned_size == ALIGN(sizeof(TYPE), ALIGNMENT), \
                                         "[C16] table row of " #field " reserves the size of " #TYPE); \
                }
#define FIELD_TYPE_AMBIGUOUS(field)
#include "c16_field_types.h"
        if (reset == 0)
                __CPROVER_assert(g_init_calls <= 1 && (g_init_calls == 0 || g_init_reset_arg == 0), "[C16] re-attach re-binds the handlers of the recorded architecture without resetting managers");
        else
                __CPROVER_assert(g_init_calls == 0, "[C16] reset_mgr does not run a variant init");
        __CPROVER_assert(reset != 0, "[VACUITY] re-attach path reachable");
}

/* ---- unit B: frame / residue for an arbitrary byte k of the block ---- */
void
h_set_pointers_frame(void)
{
        const size_t size = imb_get_mb_mgr_size();
        uint8_t *mem = malloc(size);
        const unsigned reset = nondet_unsigned();
        const size_t k = nondet_size();

        __CPROVER_assume(mem != NULL);
        spec_layout();
        /* pointer fields and road-block words are written through the recorded helpers only
         * (unit A pins down where); here: no OTHER byte changes */
        __CPROVER_assume(k < size && !in_frame(k));
#ifdef FRAME_REATTACH_ONLY
        __CPROVER_assume(reset == 0);
#else
        __CPROVER_assume(reset != 0);
#endif
        g_detected = nondet_u64();
        g_adjusted = nondet_u64();
        const uint8_t pre = mem[k];

        (void) imb_set_pointers_mb_mgr(mem, nondet_u64(), reset);

        if (reset == 0)
                __CPROVER_assert(mem[k] == pre, "[C16] re-attach (reset_mgr=0) writes nothing but pointers, flags, features, errno, road blocks");
        else
                __CPROVER_assert(mem[k] == 0, "[C15] reset_mgr: every byte of the block outside pointers/road blocks is zero");
        __CPROVER_assert(!(k > sizeof(IMB_MGR) + 4096), "[VACUITY] a manager-content byte is watched");
}

#ifdef REAL_HELPERS
/* ---- the three byte-offset helpers themselves (real bodies), on a manager-sized object ---- */
void
h_helpers(void)
{
        /* the helpers are pure byte-offset arithmetic on their first argument: a 128-byte
         * object stands for the manager (a symbolic offset into the real 56 KB one costs minutes) */
        IMB_MGR *m = malloc(128);
        const size_t off = nondet_size(), k = nondet_size();
        uint8_t *const p = (uint8_t *) (uintptr_t) nondet_u64();

        __CPROVER_assume(m != NULL);
        __CPROVER_assume(off <= 128 - sizeof(void *) && k < 128);
        const uint8_t pre = ((const uint8_t *) m)[k];
        set_ooo_ptr(m, off, p);
        __CPROVER_assert(get_ooo_ptr(m, off) == p, "[C16] get_ooo_ptr reads back what set_ooo_ptr stored at that offset");
        if (k < off || k >= off + sizeof(void *))
                __CPROVER_assert(((const uint8_t *) m)[k] == pre, "[C16][C07] set_ooo_ptr writes exactly the 8 bytes of the pointer field");
        /* road block */
        uint8_t *o = malloc(256);
        const size_t ro = nondet_size(), q = nondet_size();
        __CPROVER_assume(o != NULL && ro <= 256 - sizeof(uint64_t) && q < 256);
        const uint8_t preo = o[q];
        set_road_block(o, ro);
        __CPROVER_assert(*(uint64_t *) (o + ro) == IMB_OOO_ROAD_BLOCK, "[C16] set_road_block stamps the marker at the given offset");
        if (q < ro || q >= ro + sizeof(uint64_t))
                __CPROVER_assert(o[q] == preo, "[C16][C07] set_road_block writes exactly 8 bytes");
}
#endif

/* ---- unit B': frame of imb_set_pointers_mb_mgr as a DFCC assigns clause.
 * With the helpers recording instead of storing (their stores are pinned down by unit A and the
 * helper unit), everything else the function may write is listed here; on the re-attach path
 * (reset_mgr == 0) that is the error code, flags and features only - jobs[], earliest_job,
 * next_job and all manager contents are outside the frame, so they survive. */
IMB_MGR *
contract_imb_set_pointers_mb_mgr(void *mem_ptr, const uint64_t flags, const unsigned reset_mgr)
        /* clang-format off */
__CPROVER_requires(__CPROVER_is_fresh(mem_ptr, 229288))
__CPROVER_requires(imb_get_mb_mgr_size() == 229288)
__CPROVER_assigns(((IMB_MGR *) mem_ptr)->imb_errno, ((IMB_MGR *) mem_ptr)->flags, ((IMB_MGR *) mem_ptr)->features, imb_errno,
                  g_init_calls, g_init_arch, g_init_reset_arg;
                  reset_mgr != 0: __CPROVER_object_upto(mem_ptr, 229288))
__CPROVER_ensures(__CPROVER_return_value == (IMB_MGR *) mem_ptr)
        /* clang-format on */
        ;

void
h_set_pointers_dfcc(void)
{
        void *mem;
        (void) imb_set_pointers_mb_mgr(mem, nondet_u64(), nondet_unsigned());
}

/* NULL block */
void
h_set_pointers_null(void)
{
        IMB_MGR *ret = imb_set_pointers_mb_mgr(NULL, nondet_u64(), nondet_unsigned());

        __CPROVER_assert(ret == NULL && imb_errno == ENOMEM, "[C12] set-pointers: NULL block -> NULL, ENOMEM");
}
