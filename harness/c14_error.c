/*
 * C14: error code plumbing of the REAL lib/x86_64/error.c + lib/include/error.h.
 *  - imb_get_strerror() is total: a non-NULL string for every int, and for every library code
 *    strictly between IMB_ERR_MIN and IMB_ERR_MAX a library string (not the libc fallback),
 *    so a forgotten `case` is a failed obligation
 *  - imb_set_errno()/imb_get_errno(): manager code first, process-wide mirror as fallback
 */
#include "cprover_shim.h"
#include "x86_64/error.c"

static char g_libc_str[4] = "lib";
char *
strerror(int e)
{
        (void) e;
        return g_libc_str; /* libc model: some non-NULL string that is not one of the library's */
}

const char *
contract_imb_get_strerror(int errnum)
        /* clang-format off */
__CPROVER_assigns()
__CPROVER_ensures(__CPROVER_return_value != NULL)
__CPROVER_ensures((errnum > IMB_ERR_MIN && errnum < IMB_ERR_MAX) ==> __CPROVER_return_value != g_libc_str)
__CPROVER_ensures(errnum == 0 ==> __CPROVER_return_value != g_libc_str)
__CPROVER_ensures(errnum >= IMB_ERR_MAX ==> __CPROVER_return_value != g_libc_str)
        /* clang-format on */
        ;

int
contract_imb_get_errno(IMB_MGR *mb_mgr)
        /* clang-format off */
__CPROVER_requires(mb_mgr == NULL || __CPROVER_is_fresh(mb_mgr, sizeof(*mb_mgr)))
__CPROVER_assigns()
__CPROVER_ensures(__CPROVER_return_value ==
                  ((mb_mgr != NULL && mb_mgr->imb_errno != 0) ? mb_mgr->imb_errno : imb_errno))
        /* clang-format on */
        ;

void
contract_imb_set_errno(IMB_MGR *mb_mgr, const int errnum)
        /* clang-format off */
__CPROVER_requires(mb_mgr == NULL || __CPROVER_is_fresh(mb_mgr, sizeof(*mb_mgr)))
__CPROVER_assigns(imb_errno; mb_mgr != NULL: mb_mgr->imb_errno)
__CPROVER_ensures(imb_errno == errnum)
__CPROVER_ensures(mb_mgr != NULL ==> mb_mgr->imb_errno == errnum)
        /* clang-format on */
        ;

#ifndef NATIVE_REPLAY
int nondet_int(void);
IMB_MGR *nondet_mgrp(void);
void h_strerror(void) { (void) imb_get_strerror(nondet_int()); }
void h_get_errno(void) { (void) imb_get_errno(nondet_mgrp()); }
void h_set_errno(void) { imb_set_errno(nondet_mgrp(), nondet_int()); }
#endif
