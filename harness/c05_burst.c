/*
 * Burst API of the REAL per-variant unit (GET_NEXT_BURST, SUBMIT_BURST[_NOCHECK], FLUSH_BURST)
 * against the FIFO view - BOUNDED stand-in, stated bound:
 *   burst size 0..BMAX (BMAX = 3) or > IMB_MAX_BURST_SIZE; ring tail position from
 *   {0, 1, 100, 253, 254, 255} (all wrap phases of a BMAX burst), queue length from
 *   {0, 1, 2, 253, 254, 255}; everything else symbolic (slot contents, statuses, suite ids,
 *   which job the parameter check rejects, which pointers of the burst array are NULL /
 *   out of order, how many jobs complete at once).
 * The ring positions are restricted because each symbolic-offset access into the 56 KB manager
 * costs ~3 M clauses (see DESIGN.md); loops are fully unwound for the bound.
 */
#include <stdlib.h>
#include <stddef.h>
#include UNIT_FILE

#define SZ ((int) sizeof(IMB_JOB))
#define NJ IMB_MAX_JOBS
#ifndef BMAX
#define BMAX 3
#endif

extern unsigned g_bs_calls, g_bc_calls, g_chk_calls;
extern IMB_JOB *g_bs_log[];
const IMB_JOB *g_bad_job;
int g_bad_errno;

unsigned nondet_unsigned(void);
int nondet_int(void);
_Bool nondet_bool(void);

static IMB_MGR *st;
static unsigned g_n, g_e, g_cnt;

/* ring positions are literal constants on every explored path (case split in the harness
 * entry), so every slot access below is a constant-offset access */
static void
mk_ring(const unsigned n, const unsigned cnt)
{
        st = malloc(sizeof(*st));
        __CPROVER_assume(st != NULL);
        g_n = n;
        g_cnt = cnt;
        g_e = (g_n - g_cnt) & (NJ - 1);
        st->next_job = (int) (g_n * SZ);
        st->earliest_job = g_cnt ? (int) (g_e * SZ) : -1;
        g_bad_job = NULL;
}

#define FOR_POS(X, c) X(0, c) X(1, c) X(100, c) X(253, c) X(254, c) X(255, c)
#ifdef CNT_ONLY /* one queue length per unit: keeps the number of merged paths (whole-ring phi nodes) small */
#define FOR_CNT(X) FOR_POS(X, CNT_ONLY)
#else
#define FOR_CNT(X) FOR_POS(X, 0) FOR_POS(X, 1) FOR_POS(X, 2) FOR_POS(X, 253) FOR_POS(X, 254) FOR_POS(X, 255)
#endif

static unsigned
view_cnt_now(void)
{
        if (st->earliest_job < 0)
                return 0;
        const unsigned c = ((unsigned) ((st->next_job - st->earliest_job) / SZ)) & (NJ - 1);
        return c ? c : NJ;
}

static int
ring_wf(void)
{
        return st->next_job >= 0 && st->next_job % SZ == 0 && st->next_job / SZ < NJ &&
               (st->earliest_job == -1 ||
                (st->earliest_job >= 0 && st->earliest_job % SZ == 0 && st->earliest_job / SZ < NJ));
}

/* ---------------- GET_NEXT_BURST ---------------- */
static void
run_get_next_burst(const unsigned pos, const unsigned cnt)
{
        IMB_JOB *out[BMAX + 1];
        uint32_t n_req = nondet_unsigned();
        const int null_arr = nondet_bool();

        mk_ring(pos, cnt);
        __CPROVER_assume(n_req <= BMAX || n_req > IMB_MAX_BURST_SIZE);
        const uint32_t r = GET_NEXT_BURST(st, n_req, null_arr ? NULL : out);

        if (null_arr) {
                __CPROVER_assert(r == 0 && st->imb_errno == IMB_ERR_NULL_BURST, "[C12] get-next-burst: NULL array refused with IMB_ERR_NULL_BURST");
        } else if (n_req > IMB_MAX_BURST_SIZE) {
                __CPROVER_assert(r == 0 && st->imb_errno == IMB_ERR_BURST_SIZE, "[C12] get-next-burst: oversize refused with IMB_ERR_BURST_SIZE");
        } else {
                const unsigned room = NJ - g_cnt;
                __CPROVER_assert(r == (n_req < room ? n_req : room), "[C05] get-next-burst: min(requested, free slots) offered");
                __CPROVER_assert(st->imb_errno == 0, "[C14] get-next-burst: error code zero on success");
                for (unsigned i = 0; i < BMAX; i++)
                        if (i < r) {
                                __CPROVER_assert(out[i] == &st->jobs[(g_n + i) & (NJ - 1)], "[C05] get-next-burst: consecutive slots from the tail, wrapping");
                                __CPROVER_assert(g_cnt == 0 || ((g_n + i - g_e) & (NJ - 1)) >= g_cnt, "[C05] get-next-burst: an offered slot is not awaiting return");
                        }
        }
        __CPROVER_assert(st->next_job == (int) (g_n * SZ) && st->earliest_job == (g_cnt ? (int) (g_e * SZ) : -1),
                         "[C05] get-next-burst: queue unchanged");
        __CPROVER_assert(n_req != 2, "[VACUITY] get-next-burst harness reachable");
}

void
h_get_next_burst(void)
{
        const unsigned sel = nondet_unsigned();
        unsigned k = 0;
#define CASE(p, c) if (sel == k++) { run_get_next_burst(p, c); return; }
        FOR_CNT(CASE)
#undef CASE
}

/* ---------------- SUBMIT_BURST / SUBMIT_BURST_NOCHECK ---------------- */
static void
run_submit_burst(const unsigned pos, const unsigned cnt, const uint32_t n_jobs)
{
        IMB_JOB *arr[BMAX + 1];
        IMB_JOB *orig[BMAX + 1];
        const int null_arr = nondet_bool();
        const int checked = nondet_bool();
        int any_null = 0, first_bad = -1, bad_kind = 0; /* 1 ooo, 2 invalid, 3 suite id */

        mk_ring(pos, cnt);
        const unsigned room = NJ - g_cnt;
        const unsigned bad_idx = nondet_unsigned(); /* which job the parameter check rejects (or none) */
        /* at most one entry of the burst array is tampered with (NULL or out of order) */
        const unsigned tamper = checked ? nondet_unsigned() : BMAX;
        const int tamper_null = nondet_bool();
        for (unsigned i = 0; i < BMAX; i++) {
                arr[i] = &st->jobs[(g_n + i) & (NJ - 1)];
                orig[i] = arr[i];
        }
        if (tamper == 0) { arr[0] = tamper_null ? NULL : &st->jobs[(g_n + 7) & (NJ - 1)]; orig[0] = arr[0]; }
        else if (tamper == 1) { arr[1] = tamper_null ? NULL : &st->jobs[(g_n + 8) & (NJ - 1)]; orig[1] = arr[1]; }
        else if (tamper == 2) { arr[2] = tamper_null ? NULL : &st->jobs[(g_n + 9) & (NJ - 1)]; orig[2] = arr[2]; }
        if (!checked) {
                /* NOCHECK: the caller's obligations */
                __CPROVER_assume(!null_arr && n_jobs <= BMAX && n_jobs <= room);
        }
        if (bad_idx < BMAX && arr[bad_idx] != NULL) {
                g_bad_job = arr[bad_idx];
                g_bad_errno = nondet_int();
                __CPROVER_assume(g_bad_errno > IMB_ERR_MIN && g_bad_errno < IMB_ERR_MAX);
        }
        /* expected verdict of the per-job validation, in burst order */
        if (checked && !null_arr && n_jobs <= BMAX && n_jobs <= room)
                for (unsigned i = 0; i < BMAX; i++)
                        if (i < n_jobs && first_bad < 0 && !any_null) {
                                uint32_t t[2];
                                if (arr[i] == NULL) {
                                        any_null = 1;
                                } else if (arr[i] != &st->jobs[(g_n + i) & (NJ - 1)]) {
                                        first_bad = (int) i; bad_kind = 1;
                                } else if (arr[i] == g_bad_job) {
                                        first_bad = (int) i; bad_kind = 2;
                                } else {
                                        set_cipher_suite_id(arr[i], t);
                                        if (arr[i]->suite_id[0] != t[0] || arr[i]->suite_id[1] != t[1]) {
                                                first_bad = (int) i; bad_kind = 3;
                                        }
                                }
                        }
        const int pre_next = st->next_job, pre_earliest = st->earliest_job;
        const uint32_t r = checked ? SUBMIT_BURST(st, n_jobs, null_arr ? NULL : arr)
                                   : SUBMIT_BURST_NOCHECK(st, n_jobs, arr);
        const int refused = checked && (null_arr || n_jobs > IMB_MAX_BURST_SIZE || n_jobs > room || any_null || first_bad >= 0);

        if (refused) {
                __CPROVER_assert(r == 0, "[C12] submit-burst: a burst with any violation returns 0");
                __CPROVER_assert(g_bs_calls == 0, "[C12] submit-burst: whole burst refused before any job reaches a stage");
                __CPROVER_assert(st->next_job == pre_next && st->earliest_job == pre_earliest, "[C12][C05] submit-burst: refused burst leaves the queue unchanged");
                if (null_arr)
                        __CPROVER_assert(st->imb_errno == IMB_ERR_NULL_BURST, "[C12] submit-burst: NULL array -> IMB_ERR_NULL_BURST");
                else if (n_jobs > IMB_MAX_BURST_SIZE)
                        __CPROVER_assert(st->imb_errno == IMB_ERR_BURST_SIZE, "[C12] submit-burst: oversize -> IMB_ERR_BURST_SIZE");
                else if (n_jobs > room)
                        __CPROVER_assert(st->imb_errno == IMB_ERR_QUEUE_SPACE, "[C12] submit-burst: no room -> IMB_ERR_QUEUE_SPACE");
                else if (any_null)
                        __CPROVER_assert(st->imb_errno == IMB_ERR_NULL_JOB, "[C12] submit-burst: NULL job -> IMB_ERR_NULL_JOB");
                else {
                        __CPROVER_assert(st->imb_errno == (bad_kind == 1 ? IMB_ERR_BURST_OOO : bad_kind == 2 ? g_bad_errno : IMB_ERR_BURST_SUITE_ID),
                                         "[C12] submit-burst: error code names the first violated constraint");
                        __CPROVER_assert(orig[first_bad]->status == IMB_STATUS_INVALID_ARGS && arr[0] == orig[first_bad],
                                         "[C12] submit-burst: offending job marked INVALID_ARGS and reported in jobs[0]");
                }
        } else {
                const unsigned e0 = g_cnt ? g_e : g_n;
                __CPROVER_assert(g_bs_calls == n_jobs, "[C05] submit-burst: every job of an accepted burst reaches the stages exactly once");
                for (unsigned i = 0; i < BMAX; i++)
                        if (i < n_jobs)
                                __CPROVER_assert(g_bs_log[i] == &st->jobs[(g_n + i) & (NJ - 1)], "[C05] submit-burst: jobs submitted in burst order, each as itself");
                __CPROVER_assert(r <= g_cnt + n_jobs && (r <= n_jobs || g_cnt + n_jobs == NJ), "[C05] submit-burst: never more jobs handed back than queued");
                for (unsigned i = 0; i < BMAX; i++)
                        if (i < r) {
                                __CPROVER_assert(arr[i] == &st->jobs[(e0 + i) & (NJ - 1)], "[C05] submit-burst: jobs handed back oldest first, in order");
                                __CPROVER_assert(arr[i]->status >= IMB_STATUS_COMPLETED, "[C05][C14] submit-burst: only finished jobs are handed back");
                        }
                __CPROVER_assert(ring_wf(), "[C05] submit-burst: ring offsets stay slot boundaries");
                __CPROVER_assert(view_cnt_now() == g_cnt + n_jobs - r, "[C05] submit-burst: queue size = submitted - handed back");
                __CPROVER_assert(view_cnt_now() == 0 || st->earliest_job == (int) (((e0 + r) & (NJ - 1)) * SZ), "[C05] submit-burst: head advanced past the jobs handed back");
                __CPROVER_assert(view_cnt_now() < NJ, "[C05] submit-burst: queue never rests completely full");
                __CPROVER_assert(st->imb_errno == 0, "[C14] submit-burst: error code zero on success");
        }
        __CPROVER_assert(!(refused && bad_kind == 3), "[VACUITY] suite-id rejection reachable");
        __CPROVER_assert(!(!refused && n_jobs == 3 && r == 2), "[VACUITY] accepted burst with partial hand-back reachable");
}

void
h_submit_burst(void)
{
        const unsigned sel = nondet_unsigned();
        const unsigned nj = nondet_unsigned();
        unsigned k = 0;
#define CASE(p, c)                                                                                 \
        if (sel == k++) {                                                                          \
                if (nj == 0) run_submit_burst(p, c, 0);                                            \
                else if (nj == 1) run_submit_burst(p, c, 1);                                       \
                else if (nj == 2) run_submit_burst(p, c, 2);                                       \
                else if (nj == 3) run_submit_burst(p, c, 3);                                       \
                else run_submit_burst(p, c, IMB_MAX_BURST_SIZE + 1);                               \
                return;                                                                            \
        }
        FOR_CNT(CASE)
#undef CASE
}

/* ---------------- FLUSH_BURST ---------------- */
static void
run_flush_burst(const unsigned pos, const unsigned cnt)
{
        IMB_JOB *arr[BMAX + 1];
        uint32_t max_jobs = nondet_unsigned();
        const int null_arr = nondet_bool();

        mk_ring(pos, cnt);
        __CPROVER_assume(max_jobs <= BMAX);
        const unsigned e0 = g_e;
        const uint32_t r = FLUSH_BURST(st, max_jobs, null_arr ? NULL : arr);

        if (null_arr) {
                __CPROVER_assert(r == 0 && st->imb_errno == IMB_ERR_NULL_BURST, "[C12] flush-burst: NULL array refused with IMB_ERR_NULL_BURST");
        } else {
                __CPROVER_assert(r == (g_cnt < max_jobs ? g_cnt : max_jobs), "[C05] flush-burst: min(queued, max) jobs handed back");
                for (unsigned i = 0; i < BMAX; i++)
                        if (i < r) {
                                __CPROVER_assert(arr[i] == &st->jobs[(e0 + i) & (NJ - 1)], "[C05] flush-burst: oldest first, in order");
                                __CPROVER_assert(arr[i]->status >= IMB_STATUS_COMPLETED, "[C05][C14] flush-burst: only finished jobs are handed back");
                        }
                __CPROVER_assert(ring_wf(), "[C05] flush-burst: ring offsets stay slot boundaries");
                __CPROVER_assert(view_cnt_now() == g_cnt - r, "[C05] flush-burst: queue size = before - handed back");
                __CPROVER_assert(st->imb_errno == 0, "[C14] flush-burst: error code zero on success");
        }
        __CPROVER_assert(!(r == 2 && g_cnt == 2), "[VACUITY] flush-burst emptying the queue reachable");
}

void
h_flush_burst(void)
{
        const unsigned sel = nondet_unsigned();
        unsigned k = 0;
#define CASE(p, c) if (sel == k++) { run_flush_burst(p, c); return; }
        FOR_CNT(CASE)
#undef CASE
}
