/*
 * C01 (DES / 3DES / DOCSIS-DES in C) and C11 (DES key schedule): the REAL
 * lib/x86_64/des_basic.c and lib/x86_64/des_key.c against the FIPS 46-3 transcription in
 * spec/des_fips46.h (validated against the standard's worked example).
 *  unit key:   des_key_schedule() == PC-1, cumulative shifts, PC-2 for ALL 2^64 keys, in the
 *              8x6-bits-in-8-bytes layout the block function consumes  (layout relation LAY)
 *  unit block: enc_dec_1() == FIPS DES block function for ALL blocks, ALL 16 round keys (any
 *              values in that layout) and both directions
 *  unit chain: DES-CBC, 3DES-CBC (E-D-E), DOCSIS-DES with residual-block CFB, encrypt and
 *              decrypt, in place and out of place, over an UNINTERPRETED block function
 *              (the block unit is what interprets it) - bounded in the number of blocks
 * NASM helpers (constant-time table lookup, 128-byte copy, memory clearing) are modelled by
 * their documented effect.
 */
#include <stdlib.h>
#include <stdint.h>
#include <string.h>
#include "intel-ipsec-mb.h"

#ifdef CHAIN_UNIT
/* the block function is swapped for an uninterpreted one (goto-instrument --replace-calls) */
#endif
#include "x86_64/des_key.c"
#include "x86_64/des_basic.c"
#include "des_fips46.h"

uint64_t nondet_u64(void);
unsigned nondet_unsigned(void);
int nondet_int(void);
_Bool nondet_bool(void);

/* ---- NASM helper models ---- */
static unsigned g_lookups, g_lookup_bad;
uint32_t
lookup_32bit_sse(const void *table, const uint32_t idx, const uint32_t size)
{
        /* every S-box read goes through the constant-time primitive, on a whole 64-entry table */
        g_lookups++;
        if (!(table == sbox0p || table == sbox1p || table == sbox2p || table == sbox3p || table == sbox4p ||
              table == sbox5p || table == sbox6p || table == sbox7p) || size != sizeof(sbox0p) || idx >= 64)
                g_lookup_bad = 1;
        return ((const uint32_t *) table)[idx];
}
uint32_t lookup_32bit_avx(const void *table, const uint32_t idx, const uint32_t size) { (void) size; return ((const uint32_t *) table)[idx]; }
void memcpy_fn_sse_128(void *dst, const void *src) { memcpy(dst, src, 128); }
static unsigned g_clear_calls;
void force_memset_zero(void *p, const uint64_t n) { g_clear_calls++; memset(p, 0, n); }
void force_memset_zero_vol(volatile void *p, const uint64_t n) { g_clear_calls++; memset((void *) p, 0, n); }

/* library layout of a 48-bit round key: byte g, bit b (b < 6) holds FIPS key bit 6g+b+1 */
static uint64_t
lay(const uint64_t k48)
{
        uint64_t out = 0;

        for (unsigned g = 0; g < 8; g++)
                for (unsigned b = 0; b < 6; b++)
                        out |= ((k48 >> (47 - (6 * g + b))) & 1) << (8 * g + b);
        return out;
}

static uint64_t
unlay(const uint64_t ks)
{
        uint64_t out = 0;

        for (unsigned g = 0; g < 8; g++)
                for (unsigned b = 0; b < 6; b++)
                        out |= ((ks >> (8 * g + b)) & 1) << (47 - (6 * g + b));
        return out;
}

static uint64_t
bswap64(const uint64_t v)
{
        return ((v & 0xffULL) << 56) | ((v & 0xff00ULL) << 40) | ((v & 0xff0000ULL) << 24) | ((v & 0xff000000ULL) << 8) |
               ((v >> 8) & 0xff000000ULL) | ((v >> 24) & 0xff0000ULL) | ((v >> 40) & 0xff00ULL) | (v >> 56);
}

#ifndef CHAIN_UNIT
/* ---------------- C11: key schedule ---------------- */
void
h_des_key_schedule(void)
{
        uint8_t key[8];
        uint64_t ks[16], rk[16];
        const unsigned n = nondet_unsigned();

        for (unsigned i = 0; i < 8; i++)
                key[i] = (uint8_t) nondet_unsigned();
        __CPROVER_assume(n < 16);
        const int ret = des_key_schedule(ks, key);
        fips_key_schedule(fips_be64(key), rk);
        __CPROVER_assert(ret == 0 && imb_errno == 0, "[C11][C14] DES key schedule succeeds with error code 0");
        __CPROVER_assert(ks[n] == lay(rk[n]), "[C11] round key n = FIPS 46-3 PC-2(rotated PC-1(key)) for every key and every round");
        __CPROVER_assert(g_clear_calls >= 3, "[C13] key-schedule temporaries (C, D, T) are cleared before return");
        __CPROVER_assert(n != 15, "[VACUITY] last round key watched");
}

void
h_des_key_schedule_null(void)
{
        uint8_t key[8];
        uint64_t ks[16];

        if (nondet_bool()) {
                __CPROVER_assert(des_key_schedule(ks, NULL) == -1 && imb_errno == IMB_ERR_NULL_KEY, "[C12] DES key schedule: NULL key refused with IMB_ERR_NULL_KEY");
        } else {
                __CPROVER_assert(des_key_schedule(NULL, key) == -1 && imb_errno == IMB_ERR_NULL_EXP_KEY, "[C12] DES key schedule: NULL schedule refused with IMB_ERR_NULL_EXP_KEY");
        }
}

/* ---------------- C01: block function ---------------- */
void
h_des_block(void)
{
        uint64_t ks[16], rk[16];
        const uint64_t data = nondet_u64();
        const int enc = nondet_bool();

        for (unsigned i = 0; i < 16; i++) {
                ks[i] = nondet_u64() & 0x3f3f3f3f3f3f3f3fULL; /* what the key schedule produces: 6 bits per byte */
                rk[i] = unlay(ks[i]);
        }
        const uint64_t got = enc_dec_1(data, ks, enc);
        const uint64_t want = bswap64(fips_des_block_rk(bswap64(data), rk, enc));

        __CPROVER_assert(got == want, "[C01] enc_dec_1 = FIPS 46-3 block function (IP, 16 rounds of f with E/S1..S8/P, IP^-1) for every block, every round-key set, both directions");
        __CPROVER_assert(g_clear_calls >= 1, "[C13] the local copy of the key schedule is cleared before return");
        __CPROVER_assert(g_lookups == 16 * 8 && !g_lookup_bad,
                         "[C19] SAFE_LOOKUP: all 128 S-box evaluations of a DES block go through the constant-time lookup primitive over a whole S-box table (none read directly by secret index)");
        __CPROVER_assert(!enc, "[VACUITY] encrypt direction reachable");
}
#else
/* ---------------- C01: chaining modes over an uninterpreted block function ---------------- */
/* UF: for each (schedule identity, direction) an arbitrary fixed function of the block */
uint64_t __CPROVER_uninterpreted_des(uint64_t data, uint64_t ks_id, int enc);
uint64_t
model_enc_dec_1(const uint64_t data, const uint64_t *ks, const int enc)
{
        return __CPROVER_uninterpreted_des(data, ks[0], enc != 0);
}
#define UF(d, ks, e) __CPROVER_uninterpreted_des((d), (ks)[0], (e))

#ifndef MAXB
#define MAXB 3
#endif
static uint8_t in0[8 * MAXB + 8];

static uint64_t ld(const uint8_t *p) { uint64_t v; memcpy(&v, p, 8); return v; }

static void
run_chain(const int mode /* 0 des, 1 des3, 2 docsis */, const int enc)
{
        uint64_t ks1[16], ks2[16], ks3[16];
        const uint64_t iv = nondet_u64();
        const int size = nondet_int();
        const int inplace = nondet_bool();
        uint8_t *in = malloc(8 * MAXB + 8), *out = inplace ? in : malloc(8 * MAXB + 8);
        uint64_t ivv = iv;

        __CPROVER_assume(in != NULL && out != NULL);
        __CPROVER_assume(size >= 0 && size <= 8 * MAXB + 7);
        ks1[0] = nondet_u64(); ks2[0] = nondet_u64(); ks3[0] = nondet_u64();
        for (unsigned i = 0; i < sizeof(in0); i++)
                in0[i] = in[i];
        const uint8_t guard = out[(mode == 2) ? size : (size & ~7)]; /* first byte past the output */

        if (mode == 0) { if (enc) des_enc_cbc_basic(in, out, size, ks1, &ivv); else des_dec_cbc_basic(in, out, size, ks1, &ivv); }
        else if (mode == 1) { if (enc) des3_enc_cbc_basic(in, out, size, ks1, ks2, ks3, &ivv); else des3_dec_cbc_basic(in, out, size, ks1, ks2, ks3, &ivv); }
        else { if (enc) docsis_des_enc_basic(in, out, size, ks1, &ivv); else docsis_des_dec_basic(in, out, size, ks1, &ivv); }

        /* specification (FIPS 81 CBC; 3DES = E-D-E; DOCSIS BPI residual termination) on the entry snapshot */
        const int nb = size / 8, part = size & 7;
        uint64_t prev = iv;
        for (int j = 0; j < MAXB; j++)
                if (j < nb) {
                        const uint64_t x = ld(in0 + 8 * j);
                        uint64_t y;

                        if (enc) {
                                y = x ^ prev;
                                if (mode == 1) { y = UF(y, ks1, 1); y = UF(y, ks2, 0); y = UF(y, ks3, 1); } else y = UF(y, ks1, 1);
                                prev = y;
                        } else {
                                if (mode == 1) { y = UF(x, ks3, 0); y = UF(y, ks2, 1); y = UF(y, ks1, 0); } else y = UF(x, ks1, 0);
                                y ^= prev;
                                prev = x;
                        }
                        __CPROVER_assert(ld(out + 8 * j) == y, "[C01][C07] CBC block j = E_K(P_j xor C_{j-1}) / D_K(C_j) xor C_{j-1} on the entry contents (in place or not)");
                }
        if (mode == 2 && part) {
                /* residual bytes: CFB with the last ciphertext block (or the IV when there is none) */
                const uint64_t pad = UF(prev, ks1, 1);
                for (int b = 0; b < 7; b++)
                        if (b < part)
                                __CPROVER_assert(out[8 * nb + b] == (uint8_t) (in0[8 * nb + b] ^ (uint8_t) (pad >> (8 * b))),
                                                 "[C01][C03] DOCSIS residual byte = input xor E_K(previous ciphertext block or IV)");
        }
        if (!inplace) {
                __CPROVER_assert(out[(mode == 2) ? size : (size & ~7)] == guard, "[C07] nothing is written past the message");
                const unsigned q = nondet_unsigned();
                __CPROVER_assume(q < sizeof(in0));
                __CPROVER_assert(in[q] == in0[q], "[C07] out-of-place: the source is left intact");
        }
        __CPROVER_assert(ivv == iv, "[C14] the caller's IV is not modified");
        __CPROVER_assert(!(size == 8 * MAXB + 3 && inplace), "[VACUITY] longest in-place message with residue reachable");
}

void h_des_cbc(void) { run_chain(0, nondet_bool()); }
void h_des3_cbc(void) { run_chain(1, nondet_bool()); }
void h_docsis_des(void) { run_chain(2, nondet_bool()); }
#endif
