/*
 * C15/C16: init_mb_mgr_<variant>_internal() of the REAL per-variant unit (re)binds EVERY
 * handler of IMB_MGR whatever was there before and whatever reset_mgrs says, and with
 * reset_mgrs != 0 puts the ring into the empty state.
 * 2-run self-composition: two managers with arbitrary independent prior contents, same CPU
 * features, same reset flag; afterwards every byte of the handler area
 * [get_next_job .. earliest_job) - ghost index, so all bytes - and the architecture tags agree
 * (a handler left over from a previously used variant, or from a dead process when
 * re-attaching, would differ).  The out-of-order manager resets are another translation unit
 * (C15 reset units): modelled, they only count calls.
 */
#include <stdlib.h>
#include <stddef.h>
#include UNIT_FILE

unsigned nondet_unsigned(void);
size_t nondet_size(void);
uint64_t nondet_u64(void);
int nondet_int(void);

void
h_init_variant(void)
{
        IMB_MGR *a = malloc(sizeof(*a)), *b = malloc(sizeof(*b));
        const int reset = nondet_int();
        const size_t k = nondet_size();
        const uint64_t feat = nondet_u64();

        __CPROVER_assume(a != NULL && b != NULL);
        __CPROVER_assume((feat & VARIANT_FLAGS) == VARIANT_FLAGS);
        a->features = feat;
        b->features = feat;
        __CPROVER_assume(k >= offsetof(IMB_MGR, get_next_job) && k < offsetof(IMB_MGR, earliest_job));
        /* the self-test callback and its argument are registered by the application
         * (imb_self_test_set_cb) before init and must survive it */
        __CPROVER_assume(!(k >= offsetof(IMB_MGR, self_test_cb_fn) &&
                           k < offsetof(IMB_MGR, self_test_cb_arg) + sizeof(void *)));

        VARIANT_INIT(a, reset);
        VARIANT_INIT(b, reset);

        __CPROVER_assert(((const uint8_t *) a)[k] == ((const uint8_t *) b)[k],
                         "[C15][C16] every handler of IMB_MGR is bound by the variant init, independent of prior contents and of reset_mgrs");
        __CPROVER_assert(a->used_arch == b->used_arch && a->used_arch_type == b->used_arch_type && a->used_arch != 0,
                         "[C16] the variant records its architecture and type");
        if (reset)
                __CPROVER_assert(a->earliest_job == -1 && a->next_job == 0, "[C15] init with reset leaves the ring empty (earliest -1, next 0)");
        __CPROVER_assert(k != offsetof(IMB_MGR, flush_burst), "[VACUITY] flush_burst handler byte watched");
}
