/*
 * submit_burst_and_check(): the whole burst is validated before any job is submitted
 * (C12 "misuse of the burst calls", C06 "burst rejects a mismatching suite id") - BOUNDED
 * stand-in: burst size 0..3 or > IMB_MAX_BURST_SIZE; ring position and queue length fully
 * symbolic; any combination of NULL / out-of-order / rejected / wrong-suite-id entries.
 * The burst slots are tracked objects reached through the JOBS() model (as in c05_ring.c), so
 * the validation phase never dereferences the 56 KB manager by symbolic offset.
 * Obligation: a burst with ANY violation is refused: return 0, nothing submitted, queue
 * untouched, error code names the first violation, offender marked and reported in jobs[0];
 * a burst without violation submits every job exactly once, in order.
 */
#include <stdlib.h>
#include <stddef.h>
#include UNIT_FILE

#define SZ ((int) sizeof(IMB_JOB))
#define NJ IMB_MAX_JOBS
#define BMAX 3

extern unsigned g_bs_calls, g_bc_calls, g_chk_calls;
extern IMB_JOB *g_bs_log[];
const IMB_JOB *g_bad_job;
int g_bad_errno;
unsigned g_n;            /* tail slot index (symbolic) */
IMB_JOB g_win[BMAX];     /* the objects standing for slots g_n .. g_n+BMAX-1 (mod 256) */
IMB_JOB g_far;           /* any other slot */
IMB_JOB g_alien;         /* a descriptor of the caller that is not the expected ring slot */

unsigned nondet_unsigned(void);
int nondet_int(void);
_Bool nondet_bool(void);
IMB_JOB nondet_job(void);

void
h_submit_burst_check(void)
{
        IMB_MGR *st = malloc(sizeof(*st));
        IMB_JOB *arr[BMAX + 1];
        IMB_JOB *orig[BMAX + 1];
        const uint32_t n_jobs = nondet_unsigned();
        const int null_arr = nondet_bool();
        const unsigned cnt = nondet_unsigned();
        int any_null = 0, first_bad = -1, bad_kind = 0; /* 1 ooo, 2 invalid, 3 suite id */

        __CPROVER_assume(st != NULL);
        for (unsigned i = 0; i < BMAX; i++)
                g_win[i] = nondet_job(); /* statics are zero-initialised: make the slots arbitrary */
        g_far = nondet_job();
        g_alien = nondet_job();
        __CPROVER_assume(n_jobs <= BMAX || n_jobs > IMB_MAX_BURST_SIZE);
        g_n = nondet_unsigned();
        __CPROVER_assume(g_n < NJ && cnt < NJ);
        st->next_job = (int) (g_n * SZ);
        st->earliest_job = cnt ? (int) (((g_n - cnt) & (NJ - 1)) * SZ) : -1;
        const unsigned room = NJ - cnt;
        for (unsigned i = 0; i < BMAX; i++) {
                arr[i] = &g_win[i];
                if (nondet_bool())
                        arr[i] = nondet_bool() ? NULL : &g_alien; /* NULL or out of order */
                orig[i] = arr[i];
        }
        const unsigned bad_idx = nondet_unsigned();
        g_bad_job = NULL;
        if (bad_idx < BMAX && arr[bad_idx] != NULL) {
                g_bad_job = arr[bad_idx];
                g_bad_errno = nondet_int();
                __CPROVER_assume(g_bad_errno > IMB_ERR_MIN && g_bad_errno < IMB_ERR_MAX);
        }
        if (!null_arr && n_jobs <= BMAX && n_jobs <= room)
                for (unsigned i = 0; i < BMAX; i++)
                        if (i < n_jobs && first_bad < 0 && !any_null) {
                                uint32_t t[2];
                                if (arr[i] == NULL) {
                                        any_null = 1;
                                } else if (arr[i] != &g_win[i]) {
                                        first_bad = (int) i; bad_kind = 1;
                                } else if (arr[i] == g_bad_job) {
                                        first_bad = (int) i; bad_kind = 2;
                                } else {
                                        set_cipher_suite_id(arr[i], t);
                                        if (arr[i]->suite_id[0] != t[0] || arr[i]->suite_id[1] != t[1]) {
                                                first_bad = (int) i; bad_kind = 3;
                                        }
                                }
                        }
        const int refused = (null_arr || n_jobs > IMB_MAX_BURST_SIZE || n_jobs > room || any_null || first_bad >= 0);
        /* this unit decides the refusal side; accepted bursts are cut off after the submit loop
         * by the FLUSH/return phase touching the real ring (not modelled here) */
        __CPROVER_assume(refused || n_jobs <= BMAX);
        const int pre_next = st->next_job, pre_earliest = st->earliest_job;
        const uint32_t r = SUBMIT_BURST(st, n_jobs, null_arr ? NULL : arr);

        if (refused) {
                __CPROVER_assert(r == 0, "[C12] submit-burst: a burst with any violation returns 0");
                __CPROVER_assert(g_bs_calls == 0, "[C12][C06] submit-burst: whole burst refused before any job reaches a stage");
                __CPROVER_assert(st->next_job == pre_next && st->earliest_job == pre_earliest, "[C12][C05] submit-burst: refused burst leaves the queue unchanged");
                if (null_arr)
                        __CPROVER_assert(st->imb_errno == IMB_ERR_NULL_BURST, "[C12] submit-burst: NULL array -> IMB_ERR_NULL_BURST");
                else if (n_jobs > IMB_MAX_BURST_SIZE)
                        __CPROVER_assert(st->imb_errno == IMB_ERR_BURST_SIZE, "[C12] submit-burst: oversize -> IMB_ERR_BURST_SIZE");
                else if (n_jobs > room)
                        __CPROVER_assert(st->imb_errno == IMB_ERR_QUEUE_SPACE, "[C12] submit-burst: no room -> IMB_ERR_QUEUE_SPACE");
                else if (any_null)
                        __CPROVER_assert(st->imb_errno == IMB_ERR_NULL_JOB, "[C12] submit-burst: NULL job -> IMB_ERR_NULL_JOB");
                else {
                        __CPROVER_assert(st->imb_errno == (bad_kind == 1 ? IMB_ERR_BURST_OOO : bad_kind == 2 ? g_bad_errno : IMB_ERR_BURST_SUITE_ID),
                                         "[C12][C06] submit-burst: error code names the first violated constraint");
                        __CPROVER_assert(orig[first_bad]->status == IMB_STATUS_INVALID_ARGS && arr[0] == orig[first_bad],
                                         "[C12] submit-burst: offending job marked INVALID_ARGS and reported in jobs[0]");
                }
        } else {
                __CPROVER_assert(g_bs_calls == n_jobs, "[C05][C06] submit-burst: every job of an accepted burst reaches the stages exactly once");
                for (unsigned i = 0; i < BMAX; i++)
                        if (i < n_jobs)
                                __CPROVER_assert(g_bs_log[i] == &g_win[i], "[C05] submit-burst: jobs submitted in burst order, each as itself");
                __CPROVER_assert(st->next_job == (int) (((g_n + n_jobs) & (NJ - 1)) * SZ) || st->next_job == 0,
                                 "[C05] submit-burst: tail advanced by the burst size (or queue emptied)");
#ifdef WITH_ACCOUNTING
                /* accounting on the control fields alone (which slots complete is arbitrary here);
                 * phrased with a multiplication by the slot size, no division */
                const unsigned expect = cnt + n_jobs - r;
                int dist = st->next_job - st->earliest_job;
                if (dist < 0)
                        dist += NJ * SZ;
                __CPROVER_assert(st->earliest_job < 0 ? expect == 0
                                                      : (expect >= 1 && expect < NJ && dist == (int) expect * SZ),
                                 "[C05] submit-burst: queue size = before + submitted - handed back, never resting full");
#endif
                __CPROVER_assert(st->imb_errno == 0, "[C14] submit-burst: error code zero on success");
        }
        __CPROVER_assert(!(refused && bad_kind == 3), "[VACUITY] suite-id rejection reachable");
        __CPROVER_assert(!(!refused && n_jobs == 3), "[VACUITY] accepted burst reachable");
}
