/*
 * C09 (+C05 exactly-once, C06 right kernel, C14 status): the SYNCHRONOUS cipher burst of the
 * REAL per-variant unit (lib/include/mb_mgr_burst.h: SUBMIT_CIPHER_BURST_NOCHECK -> private
 * submit + flush loops over the shared out-of-order managers, or a direct kernel call per job).
 * Every function without a C body gets a generated stub (vlib/stubgen.py, classified by name);
 * the out-of-order managers behind the submit/flush kernels are modelled by a MULTI-job lane
 * model written here: a manager holds the jobs parked in it, a submit parks the job and may hand
 * back any parked job (or nothing), a flush hands back a parked job while there is one.
 * For a burst of n <= NB jobs, any cipher / direction / key size:
 *   supported modes (CBC, CNTR, ECB, CFB):
 *     - the call returns n and EVERY job of the burst is COMPLETED on return (synchronous)
 *     - every job is given to a kernel exactly once, and handed back exactly once
 *     - every kernel that runs serves the burst's cipher mode, key size and direction -
 *       the same binding the single-job API is proved to make (c06_bind_cipher_*), so the two
 *       entry points run the same primitive on the same work item
 *     - no descriptor outside the burst is touched, nothing stays parked in a manager
 *   other modes: returns 0, IMB_ERR_CIPH_MODE, no kernel runs, no status changes.
 * BOUNDED in the burst size (NB jobs).
 */
#include <stdlib.h>
#include <stddef.h>
#include <stdint.h>
#include UNIT_FILE

#define EV_MAX 16
#define LANE_MODEL_EXTERN
#ifdef AUTOSTUBS_FILE
#include AUTOSTUBS_FILE
#else
unsigned g_ev_n;
int g_ev[EV_MAX];
IMB_JOB *g_parked;
#define KIND_N 1
static const struct kinfo { uint64_t cmask, hmask; int key, dir; } g_kinfo[KIND_N + 1] = { { 0, 0, 0, 0 }, { 0, 0, 0, 0 } };
#endif

int nondet_int(void);
unsigned nondet_unsigned(void);
_Bool nondet_bool(void);
IMB_JOB nondet_job(void);

#ifndef NB
#define NB 3
#endif
static IMB_MGR g_state;
static IMB_JOB g_jobs[NB + 1];          /* [NB] is a bystander descriptor */
static unsigned g_n;
/* ghost state of the lane model */
static unsigned g_sub[NB + 1], g_ret[NB + 1], g_in[NB + 1];
static int g_kid[NB + 1];
static int g_foreign;                   /* a descriptor outside the burst reached a manager */

IMB_JOB *
lane_model(IMB_JOB *job, const int bit)
{
        const int kid = (g_ev_n >= 1 && g_ev_n <= EV_MAX) ? g_ev[g_ev_n - 1] : -1;

        if (job != NULL) {
                unsigned idx = NB;

                for (unsigned i = 0; i < NB; i++)
                        if (job == &g_jobs[i])
                                idx = i;
                if (idx >= g_n)
                        g_foreign = 1;
                g_sub[idx]++;
                g_kid[idx] = kid;
                g_in[idx] = 1;
                if (nondet_bool())
                        return NULL;    /* parked, nothing completes yet */
        }
        /* hand back one of the parked jobs (a flush always does while one is parked) */
        const unsigned k = nondet_unsigned();
        for (unsigned i = 0; i <= NB; i++)
                if (i == k % (NB + 1) && g_in[i]) {
                        g_in[i] = 0; g_ret[i]++;
                        g_jobs[i].status |= bit;
                        return &g_jobs[i];
                }
        for (unsigned i = 0; i <= NB; i++)
                if (g_in[i]) {
                        g_in[i] = 0; g_ret[i]++;
                        g_jobs[i].status |= bit;
                        return &g_jobs[i];
                }
        return NULL;
}

static int
supported(const IMB_CIPHER_MODE c)
{
        return c == IMB_CIPHER_CBC || c == IMB_CIPHER_CNTR || c == IMB_CIPHER_ECB || c == IMB_CIPHER_CFB;
}

void
h_cipher_burst(void)
{
        IMB_MGR *st = &g_state;
        const IMB_CIPHER_MODE cipher = (IMB_CIPHER_MODE) nondet_int();
        const IMB_CIPHER_DIRECTION dir = nondet_bool() ? IMB_DIR_ENCRYPT : IMB_DIR_DECRYPT;
        const IMB_KEY_SIZE_BYTES ks = (IMB_KEY_SIZE_BYTES) nondet_int();
        IMB_JOB pre[NB + 1];

        st->features = ~(uint64_t) 0;
        VARIANT_INIT(st, 0);
        g_n = nondet_unsigned();
        __CPROVER_assume(g_n <= NB);
        __CPROVER_assume(ks == IMB_KEY_128_BYTES || ks == IMB_KEY_192_BYTES || ks == IMB_KEY_256_BYTES);  /* what the checked entry accepts */
        for (unsigned i = 0; i <= NB; i++) {
                g_jobs[i] = nondet_job();
                g_jobs[i].status = IMB_STATUS_BEING_PROCESSED;
                pre[i] = g_jobs[i];
                g_sub[i] = g_ret[i] = g_in[i] = 0; g_kid[i] = -1;
        }
        g_ev_n = 0; g_foreign = 0;

        const uint32_t r = SUBMIT_CIPHER_BURST_NOCHECK(st, g_jobs, g_n, cipher, dir, ks);

        const unsigned i = nondet_unsigned();   /* ghost job index */
        __CPROVER_assume(i <= NB);
        if (supported(cipher)) {
                __CPROVER_assert(r == g_n, "[C09][C05] synchronous cipher burst returns the number of jobs it was given");
                __CPROVER_assert(st->imb_errno == 0, "[C14] accepted burst leaves the error code at zero");
                if (i < g_n) {
                        __CPROVER_assert(g_jobs[i].status == IMB_STATUS_COMPLETED, "[C09][C14] synchronous burst: EVERY job is COMPLETED when the call returns");
                        __CPROVER_assert(g_in[i] == 0, "[C09][C05] synchronous burst: nothing stays parked in an out-of-order manager");
                        __CPROVER_assert(g_sub[i] <= 1 && g_ret[i] == g_sub[i], "[C05][C09] each job is given to a manager at most once and handed back as often");
                }
                __CPROVER_assert(!g_foreign && g_sub[NB] == 0, "[C09][C14] only descriptors of this burst reach a kernel");
                /* every kernel call (manager submit/flush or direct kernel) serves the burst's suite */
                const unsigned e = nondet_unsigned();
                __CPROVER_assert(g_ev_n <= EV_MAX, "[INFRA] event log large enough");
                if (e < g_ev_n && e < EV_MAX) {
                        const struct kinfo *k = &g_kinfo[g_ev[e]];

                        __CPROVER_assert(k->key != -1, "[INFRA] a kernel symbol reached by the burst has no naming rule in vlib/stubgen.py");
                        __CPROVER_assert((k->cmask >> cipher) & 1, "[C06][C09] cipher burst: every kernel that runs serves the burst's cipher mode");
                        __CPROVER_assert(k->key == 0 || (uint64_t) k->key == (uint64_t) ks * 8, "[C06][C09] cipher burst: kernel key size = the burst's key size");
                        __CPROVER_assert(k->dir == 0 || k->dir == (dir == IMB_DIR_ENCRYPT ? 1 : 2), "[C06][C09] cipher burst: kernel direction = the burst's direction");
                }
                if (g_n > 0)
                        __CPROVER_assert(g_ev_n >= g_n, "[C09] cipher burst: at least one kernel call per job");
        } else {
                __CPROVER_assert(r == 0 && st->imb_errno == IMB_ERR_CIPH_MODE, "[C09][C12] unsupported cipher mode: nothing is processed, IMB_ERR_CIPH_MODE");
                __CPROVER_assert(g_ev_n == 0 && g_jobs[i].status == pre[i].status, "[C09][C12] unsupported cipher mode: no kernel runs, no status changes");
        }
        __CPROVER_assert(g_jobs[NB].status == pre[NB].status, "[C14] the descriptor after the burst is not touched");
        __CPROVER_assert(!(cipher == IMB_CIPHER_CBC && dir == IMB_DIR_ENCRYPT && ks == IMB_KEY_192_BYTES && g_n == NB && g_sub[1] == 1), "[VACUITY] full CBC-192 encrypt burst through the manager reachable");
        __CPROVER_assert(!(cipher == IMB_CIPHER_CNTR && g_n == 2), "[VACUITY] CTR burst reachable");
}

/* ---- synchronous hash burst: same obligations, keyed on the hash algorithm ---- */
static int
hash_supported(const IMB_HASH_ALG h)
{
        return h == IMB_AUTH_HMAC_SHA_1 || h == IMB_AUTH_HMAC_SHA_224 || h == IMB_AUTH_HMAC_SHA_256 || h == IMB_AUTH_HMAC_SHA_384 ||
               h == IMB_AUTH_HMAC_SHA_512 || h == IMB_AUTH_SHA_1 || h == IMB_AUTH_SHA_224 || h == IMB_AUTH_SHA_256 || h == IMB_AUTH_SHA_384 ||
               h == IMB_AUTH_SHA_512 || h == IMB_AUTH_AES_CMAC || h == IMB_AUTH_AES_CMAC_BITLEN || h == IMB_AUTH_AES_CMAC_256;
}

void
h_hash_burst(void)
{
        IMB_MGR *st = &g_state;
        const IMB_HASH_ALG hash = (IMB_HASH_ALG) nondet_int();
        IMB_JOB pre[NB + 1];

        st->features = ~(uint64_t) 0;
        VARIANT_INIT(st, 0);
        g_n = nondet_unsigned();
        __CPROVER_assume(g_n <= NB);
        __CPROVER_assume((int) hash >= 0 && (int) hash < 64);
        for (unsigned i = 0; i <= NB; i++) {
                g_jobs[i] = nondet_job();
                g_jobs[i].status = IMB_STATUS_BEING_PROCESSED;
                pre[i] = g_jobs[i];
                g_sub[i] = g_ret[i] = g_in[i] = 0; g_kid[i] = -1;
        }
        g_ev_n = 0; g_foreign = 0;

        const uint32_t r = SUBMIT_HASH_BURST_NOCHECK(st, g_jobs, g_n, hash);

        const unsigned i = nondet_unsigned();
        __CPROVER_assume(i <= NB);
        if (hash_supported(hash)) {
                __CPROVER_assert(r == g_n, "[C09][C05] synchronous hash burst returns the number of jobs it was given");
                __CPROVER_assert(st->imb_errno == 0, "[C14] accepted burst leaves the error code at zero");
                if (i < g_n) {
                        __CPROVER_assert(g_jobs[i].status == IMB_STATUS_COMPLETED, "[C09][C14] synchronous hash burst: EVERY job is COMPLETED when the call returns");
                        __CPROVER_assert(g_in[i] == 0, "[C09][C05] synchronous hash burst: nothing stays parked in an out-of-order manager");
                        __CPROVER_assert(g_sub[i] == 1 && g_ret[i] == 1, "[C05][C09] each job is given to its manager exactly once and handed back exactly once");
                }
                __CPROVER_assert(!g_foreign && g_sub[NB] == 0, "[C09][C14] only descriptors of this burst reach a kernel");
                const unsigned e = nondet_unsigned();
                __CPROVER_assert(g_ev_n <= EV_MAX, "[INFRA] event log large enough");
                if (e < g_ev_n && e < EV_MAX) {
                        const struct kinfo *k = &g_kinfo[g_ev[e]];

                        __CPROVER_assert(k->key != -1, "[INFRA] a kernel symbol reached by the burst has no naming rule in vlib/stubgen.py");
                        __CPROVER_assert((k->hmask >> hash) & 1, "[C06][C09] hash burst: every kernel that runs serves the burst's hash algorithm");
                }
        } else {
                __CPROVER_assert(r == 0 && st->imb_errno == IMB_ERR_HASH_ALGO, "[C09][C12] unsupported hash algorithm: nothing is processed, IMB_ERR_HASH_ALGO");
                __CPROVER_assert(g_ev_n == 0 && g_jobs[i].status == pre[i].status, "[C09][C12] unsupported hash algorithm: no kernel runs, no status changes");
        }
        __CPROVER_assert(g_jobs[NB].status == pre[NB].status, "[C14] the descriptor after the burst is not touched");
        __CPROVER_assert(!(hash == IMB_AUTH_HMAC_SHA_384 && g_n == NB && g_ret[2] == 1), "[VACUITY] full HMAC-SHA-384 burst reachable");
        __CPROVER_assert(!(hash == IMB_AUTH_AES_CMAC_256 && g_n == 1), "[VACUITY] CMAC-256 burst reachable");
}
