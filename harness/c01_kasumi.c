/*
 * C01: KASUMI f8 (3GPP TS 35.201 confidentiality function) for one buffer, the REAL
 * kasumi_f8_1_buffer() of lib/include/kasumi_internal.h as reached through the exported
 * kasumi_f8_1_buffer_sse() of lib/sse_t1/kasumi_sse.c (the C code is shared by every variant).
 * The KASUMI block function (same header, S-box code) is replaced by a contract model that
 * returns an arbitrary block per call and CHECKS the f8 chaining at every call:
 *     call 0        : key schedule CK xor KM, input  = COUNT||BEARER||DIR||0..0         -> A
 *     call n+1, n>=0: key schedule CK,        input  = A xor BLKCNT(n) xor KS[n-1]      -> KS[n]
 * with BLKCNT(n) = n as a 64-bit big-endian integer and KS[-1] = 0  (TS 35.201 section 4.4).
 * Output: for a ghost block n and byte q, out[8n+q] = in[8n+q] xor byte q of KS[n] for every
 * position below the length, bytes at and above the length untouched, 1 + ceil(len/8) block calls.
 * Two units share this harness:
 *  - chaining and block count for EVERY accepted length (1 .. KASUMI_MAX_LEN/8 = 2500 bytes): the
 *    loop over blocks is closed by a loop contract generated per run (vlib/loopgen.py,
 *    invariant: 8*blkcnt = bytes done, next input = A xor blkcnt xor previous keystream block,
 *    calls = 1 + blkcnt) - no unwinding, -DKAS_LOOPCONTRACT;
 *  - the output bytes (xor with the own block's keystream, partial last block, nothing beyond the
 *    length, in place or not) for messages up to KAS_MAXB bytes by unwinding (bounded).
 * That the block function itself is KASUMI (TS 35.202) is not decided here.
 */
#include <stdlib.h>
#include <stdint.h>
#include <string.h>
#include "sse_t1/kasumi_sse.c"

unsigned nondet_unsigned(void);
uint64_t nondet_u64(void);
_Bool nondet_bool(void);

#ifdef KAS_MAXB
#define MAXB KAS_MAXB   /* bounded unit: output bytes of short messages */
#else
#define MAXB (KASUMI_MAX_LEN / CHAR_BIT)
#endif
kasumi_key_sched_t g_ks;
uint64_t g_iv;
uint64_t g_n, g_calls, g_A, g_prev, g_ks_watch;
int g_chain_ok, g_key_ok, g_watch_set;
const uint8_t *g_inp;   /* base addresses of the message, for the loop invariant */
uint8_t *g_outp;

/* contract model of kasumi_1_block(): checked precondition (the f8 chaining), arbitrary result */
void
contract_kasumi_1_block(const uint16_t *context, uint16_t *data)
{
        uint64_t in, out = nondet_u64();

        memcpy(&in, data, 8);
        if (g_calls == 0) {
                if (context != g_ks.msk16)
                        g_key_ok = 0;
                if (in != BSWAP64(g_iv))
                        g_chain_ok = 0;
                g_A = out;
                g_prev = 0;
        } else {
                const uint64_t n = g_calls - 1;

                if (context != g_ks.sk16)
                        g_key_ok = 0;
                if (in != (g_A ^ n ^ g_prev))
                        g_chain_ok = 0;
                if (n == g_n) {
                        g_ks_watch = out;
                        g_watch_set = 1;
                }
                g_prev = out;
        }
        memcpy(data, &out, 8);
        g_calls++;
}

void clear_scratch_xmms_sse(void) { }
void clear_scratch_gps(void) { }

void
h_kasumi_f8(void)
{
        static uint8_t in[MAXB + 8], out[MAXB + 8];
        const uint32_t len = nondet_unsigned();
        const unsigned q = nondet_unsigned();

        g_iv = nondet_u64();
        g_n = nondet_u64();
        g_calls = 0; g_A = 0; g_prev = 0; g_ks_watch = 0; g_chain_ok = 1; g_key_ok = 1; g_watch_set = 0;
        __CPROVER_assume(len >= 1 && len <= MAXB && q < 8 && g_n <= MAXB / 8);
#ifndef KAS_LOOPCONTRACT
        for (unsigned i = 0; i < MAXB + 8; i++) {
                in[i] = (uint8_t) nondet_unsigned();
                out[i] = (uint8_t) nondet_unsigned();
        }
#endif
#ifdef KAS_INPLACE
        uint8_t *dst = in;      /* in-place operation (separate unit: a concrete destination keeps the query small) */
#else
        uint8_t *dst = out;
#endif
        g_inp = in; g_outp = dst;
        const uint64_t pos = 8 * g_n + q;
        const uint8_t in_at = in[pos], dst_at = dst[pos];

        kasumi_f8_1_buffer_sse(&g_ks, g_iv, in, dst, len);

        __CPROVER_assert(g_key_ok, "[C01] KASUMI f8: the modifier is computed under CK xor KM, every keystream block under CK");
        __CPROVER_assert(g_chain_ok, "[C01] KASUMI f8: block n is KASUMI(A xor BLKCNT(n) xor KS[n-1]) with BLKCNT = n for EVERY block of the message (TS 35.201 4.4)");
        __CPROVER_assert(g_calls == 1 + (len + 7) / 8, "[C01] KASUMI f8: one keystream block per 8 bytes of message, no more");
#ifndef KAS_LOOPCONTRACT   /* the loop contract frames the whole output buffer: byte values are decided by the bounded unit */
        if (pos < len)
                __CPROVER_assert(g_watch_set && dst[pos] == (uint8_t) (in_at ^ (uint8_t) (g_ks_watch >> (8 * (7 - q)))),
                                 "[C01] KASUMI f8: output byte = input byte xor the keystream byte of its own block, big-endian within the block");
        else
                __CPROVER_assert(dst[pos] == dst_at, "[C01][C07] KASUMI f8: nothing is written at or beyond the message length");
#endif
        __CPROVER_assert(!(len == MAXB && g_n == (MAXB - 1) / 8 && q == 3), "[VACUITY] last block of the longest message of this unit reachable");
}
