/*
 * C06 binding layer (+C14 status/frame, C04 stage bits, C08 key size per variant): what the
 * stage dispatchers of the REAL per-variant unit do with a job the real parameter check accepts.
 * Every function without a C body (NASM kernels, C kernels of other translation units) gets a
 * generated logging stub (vlib/stubgen.py, classification by symbol name, aborts on an unknown
 * name).  Obligations for the cipher stage of an accepted job:
 *   - every kernel that runs serves the job's cipher mode, key size and direction; a kernel that
 *     is specific to a hash algorithm (DOCSIS CRC32 engines, AEAD kernels) runs only if the job
 *     names that hash
 *   - at least one kernel runs (except NULL / CUSTOM)
 *   - a job handed back has exactly the cipher stage added to its status, or INTERNAL_ERROR
 *   - nothing of the descriptor but status is written
 */
#include <stdlib.h>
#include <stddef.h>
#include <stdint.h>
#include UNIT_FILE

#ifdef AUTOSTUBS_FILE
#include AUTOSTUBS_FILE
#else
/* pass 1 (only used to list the functions without body) */
#define EV_MAX 8
unsigned g_ev_n;
int g_ev[EV_MAX];
IMB_JOB *g_parked;
#define KIND_N 1
static const struct kinfo { uint64_t cmask, hmask; int key, dir; } g_kinfo[KIND_N + 1] = { { 0, 0, 0, 0 }, { 0, 0, 0, 0 } };
#endif

int nondet_int(void);
unsigned nondet_unsigned(void);
_Bool nondet_bool(void);
IMB_JOB nondet_job(void);

static int cb_ok(struct IMB_JOB *j) { (void) j; return 0; }
static int cb_fail(struct IMB_JOB *j) { (void) j; return -1; }

/* The caller-owned parts C14 names: session fields (modes, direction, hash, key length, key pointers, suite and
 * session ids), buffer pointers, offsets, chain order, both user-data words.  Message LENGTH fields are not among
 * them and are deliberately left out: for AES-CMAC the library converts msg_len_to_hash_in_bytes to bits in place
 * (same union slot) before it parks the job - per-job fields are to be set for every job by the API's contract. */
static int
same_desc(const IMB_JOB *a, const IMB_JOB *b)
{
        return a->enc_keys == b->enc_keys && a->dec_keys == b->dec_keys &&
               a->key_len_in_bytes == b->key_len_in_bytes && a->src == b->src && a->dst == b->dst &&
               a->cipher_start_src_offset_in_bytes == b->cipher_start_src_offset_in_bytes &&
               a->hash_start_src_offset_in_bytes == b->hash_start_src_offset_in_bytes &&
               a->iv == b->iv && a->auth_tag_output == b->auth_tag_output &&
               a->u.SNOW_V_AEAD.aad == b->u.SNOW_V_AEAD.aad &&
               a->cipher_mode == b->cipher_mode && a->cipher_direction == b->cipher_direction &&
               a->hash_alg == b->hash_alg && a->chain_order == b->chain_order &&
               a->user_data == b->user_data && a->user_data2 == b->user_data2 &&
               a->cipher_func == b->cipher_func && a->hash_func == b->hash_func &&
               a->cipher_fields.CBCS.next_iv == b->cipher_fields.CBCS.next_iv &&
               a->suite_id[0] == b->suite_id[0] && a->suite_id[1] == b->suite_id[1] &&
               a->session_id == b->session_id;
}

static IMB_MGR g_state; /* a plain object: its handler fields are tracked exactly by the symbolic execution */
static IMB_MGR *st;
static IMB_JOB *job, pre, parked_obj;

static void
mk_accepted(void)
{
        st = &g_state;
        job = malloc(sizeof(*job));
        __CPROVER_assume(job != NULL);
        /* bind the manager's handlers exactly as the variant does (the glue calls some kernels
         * through them: GHASH, GMAC/GCM init-update-finalize, SNOW3G/KASUMI single-buffer) */
        st->features = ~(uint64_t) 0;
        VARIANT_INIT(st, 0);
        __CPROVER_assume(job->sgl_state != IMB_SGL_ALL || job->num_sgl_io_segs <= 2);
        /* custom stages call back into the application */
        __CPROVER_assume(job->cipher_func == NULL || job->cipher_func == cb_ok || job->cipher_func == cb_fail);
        __CPROVER_assume(job->hash_func == NULL || job->hash_func == cb_ok || job->hash_func == cb_fail);
        __CPROVER_assume(is_job_invalid(st, job, job->cipher_mode, job->hash_alg, job->cipher_direction,
                                        job->key_len_in_bytes) == 0);
        /* SM4-GCM is C glue looping over the message (lib/include/sm4_gcm.h): not part of this unit */
        __CPROVER_assume(job->cipher_mode != IMB_CIPHER_SM4_GCM);
        parked_obj = nondet_job();
        g_parked = nondet_bool() ? &parked_obj : NULL;
        g_ev_n = 0;
}

/* ---------------- cipher stage ---------------- */
void
h_bind_cipher(void)
{
        mk_accepted();
        /* the cipher stage runs first (nothing done yet) or after the hash stage */
        job->status = nondet_bool() ? IMB_STATUS_BEING_PROCESSED : IMB_STATUS_COMPLETED_AUTH;
        parked_obj.status = IMB_STATUS_BEING_PROCESSED;
        pre = *job;

        /* the table layer (c06_dispatch.c) proves the dispatcher is reached with exactly these
         * arguments; calling it directly keeps the 260 table wrappers out of this query */
        IMB_JOB *r;
        if (pre.cipher_direction == IMB_DIR_ENCRYPT)
                r = SUBMIT_JOB_CIPHER_ENC(st, job, pre.cipher_mode, pre.key_len_in_bytes);
        else {
                __CPROVER_assume(pre.cipher_direction == IMB_DIR_DECRYPT); /* NULL cipher with a stray direction: see table layer */
                r = SUBMIT_JOB_CIPHER_DEC(st, job, pre.cipher_mode, pre.key_len_in_bytes);
        }

        const IMB_CIPHER_MODE cm = pre.cipher_mode;
        __CPROVER_assert(g_ev_n <= EV_MAX, "[C06] cipher stage: bounded number of kernel calls");
        for (unsigned i = 0; i < EV_MAX; i++)
                if (i < g_ev_n) {
                        const struct kinfo *k = &g_kinfo[g_ev[i]];

                        __CPROVER_assert(k->key != -1, "[INFRA] a kernel symbol reached by the dispatcher has no naming rule in vlib/stubgen.py");
                        __CPROVER_assert((k->cmask >> cm) & 1, "[C06] cipher stage: every kernel that runs serves the job's cipher mode");
                        __CPROVER_assert(k->key == 0 || (uint64_t) k->key == pre.key_len_in_bytes * 8, "[C06][C08] cipher stage: kernel key size = the job's key size");
                        __CPROVER_assert(k->dir == 0 || k->dir == (pre.cipher_direction == IMB_DIR_ENCRYPT ? 1 : 2), "[C06] cipher stage: kernel direction = the job's direction");
                        __CPROVER_assert(k->hmask == 0 || ((k->hmask >> pre.hash_alg) & 1), "[C06] cipher stage: a hash-specific kernel runs only for a job naming that hash");
                }
        /* (an empty message is legal in several modes and may be completed without any kernel) */
        if (cm != IMB_CIPHER_NULL && cm != IMB_CIPHER_CUSTOM && pre.msg_len_to_cipher_in_bytes != 0)
                __CPROVER_assert(g_ev_n >= 1, "[C06] cipher stage: the named cipher actually runs");
        if (r == job) {
                __CPROVER_assert(job->status == (pre.status | IMB_STATUS_COMPLETED_CIPHER) || job->status == IMB_STATUS_COMPLETED ||
                                         job->status == IMB_STATUS_INTERNAL_ERROR,
                                 "[C14][C04] cipher stage: a job handed back has exactly the cipher stage added to its status (or INTERNAL_ERROR)");
        } else {
                __CPROVER_assert(r == NULL || r == &parked_obj, "[C04] cipher stage: hands back the submitted job, a job parked earlier, or nothing");
                __CPROVER_assert(job->status == pre.status, "[C14] cipher stage: a parked job keeps its status");
        }
        __CPROVER_assert(same_desc(job, &pre), "[C14] cipher stage: no caller-owned descriptor field is written");
        __CPROVER_assert(!(cm == IMB_CIPHER_DOCSIS_SEC_BPI && pre.cipher_direction == IMB_DIR_DECRYPT && pre.hash_alg == IMB_AUTH_HMAC_SHA_1),
                         "[VACUITY] DOCSIS decrypt with a generic hash reachable");
        __CPROVER_assert(!(cm == IMB_CIPHER_CUSTOM && pre.status == IMB_STATUS_COMPLETED_AUTH && pre.cipher_func == cb_fail),
                         "[VACUITY] failing custom cipher after the hash stage reachable");
}

/* ---------------- hash stage ---------------- */
void
h_bind_hash(void)
{
        mk_accepted();
        /* the hash stage runs first or after the cipher stage */
        job->status = nondet_bool() ? IMB_STATUS_BEING_PROCESSED : IMB_STATUS_COMPLETED_CIPHER;
        parked_obj.status = IMB_STATUS_BEING_PROCESSED;
        pre = *job;

        IMB_JOB *r = SUBMIT_JOB_HASH_EX(st, job, pre.hash_alg);

        const IMB_HASH_ALG ha = pre.hash_alg;
        __CPROVER_assert(g_ev_n <= EV_MAX, "[C06] hash stage: bounded number of kernel calls");
        for (unsigned i = 0; i < EV_MAX; i++)
                if (i < g_ev_n) {
                        const struct kinfo *k = &g_kinfo[g_ev[i]];

                        __CPROVER_assert(k->key != -1, "[INFRA] a kernel symbol reached by the dispatcher has no naming rule in vlib/stubgen.py");
                        __CPROVER_assert((k->hmask >> ha) & 1, "[C06] hash stage: every kernel that runs serves the job's hash algorithm");
                }
        if (r == job) {
                __CPROVER_assert(job->status == (pre.status | IMB_STATUS_COMPLETED_AUTH) || job->status == IMB_STATUS_COMPLETED ||
                                         job->status == IMB_STATUS_INTERNAL_ERROR,
                                 "[C14][C04] hash stage: a job handed back has exactly the hash stage added to its status (or INTERNAL_ERROR)");
        } else {
                __CPROVER_assert(r == NULL || r == &parked_obj, "[C04] hash stage: hands back the submitted job, a job parked earlier, or nothing");
                __CPROVER_assert(job->status == pre.status, "[C14] hash stage: a parked job keeps its status");
        }
        __CPROVER_assert(same_desc(job, &pre), "[C14] hash stage: no caller-owned descriptor field is written");
        __CPROVER_assert(!(ha == IMB_AUTH_AES_CMAC_BITLEN), "[VACUITY] CMAC bit-length hash stage reachable");
        __CPROVER_assert(!(ha == IMB_AUTH_CUSTOM && pre.hash_func == cb_fail), "[VACUITY] failing custom hash reachable");
}

/* ---------------- flush of a stage ---------------- */
/* A flush is asked to make progress for `job`; it may hand back any job that was PARKED in the
 * manager it flushes - i.e. one whose stage was still outstanding - with that stage now done,
 * or nothing.  It must never hand back a job whose stage had already completed (the caller,
 * complete_job()/RESUBMIT_JOB(), would submit it to the next stage a second time). */
void
h_bind_flush(void)
{
        const int cipher_stage = nondet_bool();
        mk_accepted();
        /* the job the flush is called for is queued with some stage outstanding */
        const int s = nondet_int();
        __CPROVER_assume(s == IMB_STATUS_BEING_PROCESSED || s == IMB_STATUS_COMPLETED_CIPHER || s == IMB_STATUS_COMPLETED_AUTH);
        job->status = (IMB_STATUS) s;
        parked_obj.status = nondet_bool() ? IMB_STATUS_BEING_PROCESSED
                                          : (cipher_stage ? IMB_STATUS_COMPLETED_AUTH : IMB_STATUS_COMPLETED_CIPHER);
        pre = *job;
        const IMB_STATUS parked_pre = parked_obj.status;
        const unsigned bit = cipher_stage ? IMB_STATUS_COMPLETED_CIPHER : IMB_STATUS_COMPLETED_AUTH;

        IMB_JOB *r;
        if (cipher_stage) {
                if (pre.cipher_direction == IMB_DIR_ENCRYPT)
                        r = FLUSH_JOB_CIPHER_ENC(st, job, pre.cipher_mode, pre.key_len_in_bytes);
                else {
                        __CPROVER_assume(pre.cipher_direction == IMB_DIR_DECRYPT);
                        r = FLUSH_JOB_CIPHER_DEC(st, job, pre.cipher_mode, pre.key_len_in_bytes);
                }
        } else
                r = FLUSH_JOB_HASH_EX(st, job, pre.hash_alg);

        __CPROVER_assert(r == NULL || r == job || r == &parked_obj, "[C04] flush: hands back the job it was called for, a parked job, or nothing");
        if (r == job)
                __CPROVER_assert((pre.status & bit) == 0, "[C04][C06] flush: never hands back a job whose stage had already completed (it would be resubmitted: stage run twice)");
        if (r == &parked_obj)
                __CPROVER_assert((parked_pre & bit) == 0, "[C04][C06] flush: a parked job handed back had this stage outstanding");
        if (r != NULL)
                __CPROVER_assert((r->status & bit) != 0 || r->status == IMB_STATUS_INTERNAL_ERROR, "[C04] flush: the job handed back has this stage completed");
        __CPROVER_assert(same_desc(job, &pre), "[C14] flush: no caller-owned descriptor field is written");
        __CPROVER_assert(!(cipher_stage && pre.cipher_mode == IMB_CIPHER_CUSTOM && pre.status == IMB_STATUS_COMPLETED_CIPHER), "[VACUITY] flush for a custom-cipher job already ciphered reachable");
}
