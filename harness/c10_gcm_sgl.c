/*
 * C10 (+C06, C14): AES-GCM scatter-gather jobs, the REAL submit_gcm_sgl_enc()/submit_gcm_sgl_dec()
 * of lib/include/job_api_gcm.h.
 * The GCM init / update / finalize primitives are NASM and reached through the manager's function
 * pointers: here every one of the 15 pointers is bound to a contract model that CHECKS, at every
 * call, that this call is the one the specification puts at this position of the sequence:
 *   IMB_SGL_INIT     -> exactly one call: init_var_iv(enc_keys, ctx, iv, iv_len, aad, aad_len)
 *   IMB_SGL_UPDATE   -> exactly one call: update(enc_keys, ctx, dst, src, msg_len_to_cipher)
 *   IMB_SGL_COMPLETE -> exactly one call: finalize(enc_keys, ctx, tag, tag_len)
 *   IMB_SGL_ALL      -> n + 2 calls: the init call, then for EVERY i < n, in order,
 *                       update(enc_keys, ctx, segs[i].out, segs[i].in, segs[i].len), then finalize
 *   i.e. the one-job form issues precisely the primitive sequence of the equivalent
 *   INIT / UPDATE x n / COMPLETE job sequence, with the primitive of the job's own key size and
 *   (for update) direction; the job is returned with status COMPLETED.
 * Proved for every job: all sgl_state values the checker admits, all three key sizes, both
 * directions, any segment count n and any segment list (empty segments included).  The segment
 * loops are closed by loop contracts generated per run (vlib/loopgen.py): no bound on n.
 * That equal primitive sequences give equal bytes is a property of the NASM primitives (trusted).
 * finalize has no direction: GCM_COMPLETE takes none in any variant, so enc_finalize and
 * dec_finalize are the same computation (the library itself calls ENC_FINALIZE at the end of a
 * decrypt IMB_SGL_ALL job); the contract does not distinguish them.
 */
#include <stdlib.h>
#include <stdint.h>
#include <string.h>
#include "intel-ipsec-mb.h"
#include "include/job_api_gcm.h"

unsigned nondet_unsigned(void);
uint64_t nondet_u64(void);
IMB_JOB nondet_job(void);

enum { OP_INIT = 1, OP_UPDATE = 2, OP_FINAL = 3 };
/* the job as it was submitted, in plain globals (read by the contract models and the loop invariants) */
int g_x_all, g_x_state;
unsigned g_x_bits, g_x_dec;
const void *g_x_key, *g_x_ctx, *g_x_iv, *g_x_aad, *g_x_tag, *g_x_dst, *g_x_src;
uint64_t g_x_ivl, g_x_aadl, g_x_tagl, g_x_len, g_x_n;
const struct IMB_SGL_IOV *g_x_segs;
/* ghost state of the sequence */
uint64_t g_calls;       /* primitive calls so far */
int g_seq_ok;           /* every call so far was the one the specification puts at its position */

static void
call(const unsigned op, const unsigned bits, const unsigned dec, const void *key, const void *ctx,
     const void *a, const void *b, const uint64_t x, const uint64_t y)
{
        unsigned want;
        const void *wa, *wb = NULL;
        uint64_t wx, wy = 0;

        if (g_x_all)
                want = g_calls == 0 ? OP_INIT : (g_calls == g_x_n + 1 ? OP_FINAL : OP_UPDATE);
        else
                want = g_x_state == IMB_SGL_INIT ? OP_INIT : (g_x_state == IMB_SGL_UPDATE ? OP_UPDATE : OP_FINAL);
        if (g_calls > (g_x_all ? g_x_n + 1 : 0))
                g_seq_ok = 0;   /* more calls than the sequence has */
        if (want == OP_INIT) {
                wa = g_x_iv; wb = g_x_aad; wx = g_x_ivl; wy = g_x_aadl;
        } else if (want == OP_FINAL) {
                wa = g_x_tag; wx = g_x_tagl;
        } else if (g_x_all) {
                const struct IMB_SGL_IOV *s = &g_x_segs[g_calls - 1];   /* call k carries segment k-1 */

                wa = s->out; wb = s->in; wx = s->len;
        } else {
                wa = g_x_dst; wb = g_x_src; wx = g_x_len;
        }
        if (op != want || bits != g_x_bits || (op == OP_UPDATE && dec != g_x_dec) || key != g_x_key || ctx != g_x_ctx ||
            a != wa || b != wb || x != wx || y != wy)
                g_seq_ok = 0;
        g_calls++;
}

#define MODELS(bits)                                                                                         \
static void m_init_##bits(const struct gcm_key_data *k, struct gcm_context_data *c, const uint8_t *iv,      \
                          const uint64_t ivl, const uint8_t *aad, const uint64_t aadl)                       \
{ call(OP_INIT, bits, 2, k, c, iv, aad, ivl, aadl); }                                                        \
static void m_encu_##bits(const struct gcm_key_data *k, struct gcm_context_data *c, uint8_t *o,             \
                          const uint8_t *i, uint64_t l)                                                      \
{ call(OP_UPDATE, bits, 0, k, c, o, i, l, 0); }                                                              \
static void m_decu_##bits(const struct gcm_key_data *k, struct gcm_context_data *c, uint8_t *o,             \
                          const uint8_t *i, uint64_t l)                                                      \
{ call(OP_UPDATE, bits, 1, k, c, o, i, l, 0); }                                                              \
static void m_encf_##bits(const struct gcm_key_data *k, struct gcm_context_data *c, uint8_t *t, uint64_t l) \
{ call(OP_FINAL, bits, 0, k, c, t, NULL, l, 0); }                                                            \
static void m_decf_##bits(const struct gcm_key_data *k, struct gcm_context_data *c, uint8_t *t, uint64_t l) \
{ call(OP_FINAL, bits, 1, k, c, t, NULL, l, 0); }
MODELS(128)
MODELS(192)
MODELS(256)

static IMB_MGR g_mgr;
static IMB_JOB g_job;

void
h_gcm_sgl(void)
{
        const unsigned dec = nondet_unsigned() & 1;
        const uint64_t key_sz = nondet_u64();
        const uint64_t n = nondet_u64();
        struct IMB_SGL_IOV *segs;

#define BIND(b)                                                                                  \
        g_mgr.gcm##b##_init_var_iv = m_init_##b; g_mgr.gcm##b##_enc_update = m_encu_##b;         \
        g_mgr.gcm##b##_dec_update = m_decu_##b; g_mgr.gcm##b##_enc_finalize = m_encf_##b;        \
        g_mgr.gcm##b##_dec_finalize = m_decf_##b;
        BIND(128) BIND(192) BIND(256)

        g_job = nondet_job();
        __CPROVER_assume(key_sz == 16 || key_sz == 24 || key_sz == 32);   /* accepted by the job checker (C12) */
        __CPROVER_assume(n <= GCM_SGL_MAX_SEGS);
        /* any other sgl_state is rejected by the job checker (IMB_ERR_JOB_SGL_STATE, decided under C12) */
        __CPROVER_assume(g_job.sgl_state == IMB_SGL_INIT || g_job.sgl_state == IMB_SGL_UPDATE || g_job.sgl_state == IMB_SGL_COMPLETE || g_job.sgl_state == IMB_SGL_ALL);
        segs = malloc(sizeof(*segs) * (n + 1));
        __CPROVER_assume(segs != NULL);
        if (g_job.sgl_state == IMB_SGL_ALL) {
                g_job.num_sgl_io_segs = n;
                g_job.sgl_io_segs = segs;
        }
        g_job.status = IMB_STATUS_BEING_PROCESSED;

        const IMB_JOB snap = g_job;
        g_x_all = snap.sgl_state == IMB_SGL_ALL; g_x_state = snap.sgl_state; g_x_bits = (unsigned) key_sz * 8; g_x_dec = dec;
        g_x_key = snap.enc_keys; g_x_ctx = snap.u.GCM.ctx; g_x_iv = snap.iv; g_x_aad = snap.u.GCM.aad;
        g_x_ivl = snap.iv_len_in_bytes; g_x_aadl = snap.u.GCM.aad_len_in_bytes;
        g_x_tag = snap.auth_tag_output; g_x_tagl = snap.auth_tag_output_len_in_bytes;
        g_x_dst = snap.dst; g_x_src = snap.src; g_x_len = snap.msg_len_to_cipher_in_bytes;
        g_x_n = n; g_x_segs = segs;
        g_calls = 0; g_seq_ok = 1;

        IMB_JOB *r = dec ? submit_gcm_sgl_dec(&g_mgr, &g_job, key_sz) : submit_gcm_sgl_enc(&g_mgr, &g_job, key_sz);

        __CPROVER_assert(r == &g_job && g_job.status == IMB_STATUS_COMPLETED, "[C10][C14] the SGL job is handed back COMPLETED");
        __CPROVER_assert(g_calls == (g_x_all ? n + 2 : 1), "[C10] one primitive call per INIT/UPDATE/COMPLETE job; the IMB_SGL_ALL form makes init + one update per segment + finalize, for ANY number of segments");
        __CPROVER_assert(g_seq_ok, "[C10][C06] every call of the sequence is the specified one: init(iv, aad), then update k with segment k-1's own (out, in, len) IN ORDER - empty segments never end the list -, then finalize(tag); job's key, context, key size and direction throughout: the same sequence as the INIT/UPDATE/COMPLETE jobs");
        __CPROVER_assert(!(g_x_all && n == 3 && dec == 1 && key_sz == 24), "[VACUITY] SGL_ALL with 3 segments, 192-bit decrypt reachable");
}
