/*
 * C04/C06: stage sequencing of the REAL submit_new_job() / RESUBMIT_JOB() / complete_job()
 * (and their burst twins) over an abstract lane model of the two stage dispatch functions.
 * World: the job being submitted/completed plus NP other jobs already in flight, each possibly
 * parked in the cipher-stage or the hash-stage manager.  The stage functions
 * SUBMIT_JOB_CIPHER/HASH, FLUSH_JOB_CIPHER/HASH (and CALL_* for bursts) are replaced by models:
 *   submit(j): REQUIRES that j's stage is outstanding and - for the second stage - that exactly
 *              the first stage of j's chain order is complete; either completes j at once or
 *              parks it, and may hand back any job parked in that manager with its stage done
 *   flush(j):  hands back a job parked in that manager with its stage done, or NULL
 * Obligations: every job gets each stage at most once, in its own chain order, submitted as
 * itself; what submit_new_job returns is NULL or a finished job; complete_job returns only when
 * the job is finished; AES-GCM goes to the cipher stage only.
 */
#include <stdlib.h>
#include <stddef.h>
#include UNIT_FILE

#ifndef NP
#define NP 1
#endif
#define NJOBS (NP + 1)
static IMB_JOB g_jobs[NJOBS];     /* [0] = the job submitted / completed, [1..NP] = others in flight */
static int in_cipher[NJOBS], in_hash[NJOBS];
static unsigned cipher_submits[NJOBS], hash_submits[NJOBS];
static int g_alien_submit;       /* a stage was handed a pointer that is none of our jobs */
static int g_order_bad, g_twice_bad;

int nondet_int(void);
unsigned nondet_unsigned(void);
_Bool nondet_bool(void);
IMB_JOB nondet_job(void);

static int
idx_of(const IMB_JOB *j)
{
        for (int i = 0; i < NJOBS; i++)
                if (j == &g_jobs[i])
                        return i;
        return -1;
}

static int
first_is_cipher(const IMB_JOB *j)
{
        return j->cipher_mode == IMB_CIPHER_GCM || j->chain_order == IMB_ORDER_CIPHER_HASH;
}

static IMB_JOB *
stage_return(int *parked, const unsigned bit)
{
        /* hand back a job parked in this manager (stage done), or nothing */
        if (nondet_bool())
                return NULL;
        const unsigned k = nondet_unsigned();
        if (k >= NJOBS || !parked[k])
                return NULL;
        parked[k] = 0;
        /* GCM (and the other one-call AEAD kernels) complete both stages at once */
        g_jobs[k].status |= (g_jobs[k].cipher_mode == IMB_CIPHER_GCM) ? IMB_STATUS_COMPLETED : bit;
        return &g_jobs[k];
}

static IMB_JOB *
stage_submit(IMB_JOB *j, const int cipher)
{
        const int i = idx_of(j);
        const unsigned bit = cipher ? IMB_STATUS_COMPLETED_CIPHER : IMB_STATUS_COMPLETED_AUTH;
        const unsigned other = cipher ? IMB_STATUS_COMPLETED_AUTH : IMB_STATUS_COMPLETED_CIPHER;

        if (i < 0) {
                g_alien_submit = 1;
                return NULL;
        }
        if (cipher) cipher_submits[i]++; else hash_submits[i]++;
        if ((j->status & bit) != 0 || (cipher ? in_cipher[i] : in_hash[i]))
                g_twice_bad = 1;                       /* this stage already ran / is running for j */
        if (first_is_cipher(j) == cipher) {
                if (j->status != IMB_STATUS_BEING_PROCESSED)
                        g_order_bad = 1;               /* first stage must start from a clean status */
        } else {
                if (j->status != (IMB_STATUS) other)
                        g_order_bad = 1;               /* second stage only after exactly the first */
        }
        if (nondet_bool())
                (cipher ? in_cipher : in_hash)[i] = 1;  /* parked */
        else {
                j->status |= (j->cipher_mode == IMB_CIPHER_GCM) ? IMB_STATUS_COMPLETED : bit;
                return j;                               /* completed at once */
        }
        return stage_return(cipher ? in_cipher : in_hash, bit);
}

IMB_JOB *model_submit_cipher(IMB_MGR *s, IMB_JOB *j) { (void) s; return stage_submit(j, 1); }
IMB_JOB *model_submit_hash(IMB_MGR *s, IMB_JOB *j) { (void) s; return stage_submit(j, 0); }
IMB_JOB *model_flush_cipher(IMB_MGR *s, IMB_JOB *j) { (void) s; (void) j; return stage_return(in_cipher, IMB_STATUS_COMPLETED_CIPHER); }
IMB_JOB *model_flush_hash(IMB_MGR *s, IMB_JOB *j) { (void) s; (void) j; return stage_return(in_hash, IMB_STATUS_COMPLETED_AUTH); }

static void
mk_world(void)
{
        for (int i = 0; i < NJOBS; i++) {
                g_jobs[i] = nondet_job();
                in_cipher[i] = in_hash[i] = 0;
                cipher_submits[i] = hash_submits[i] = 0;
                __CPROVER_assume(g_jobs[i].chain_order == IMB_ORDER_CIPHER_HASH || g_jobs[i].chain_order == IMB_ORDER_HASH_CIPHER);
        }
        /* the others are in flight: first stage parked, or first stage done and second parked */
        for (int i = 1; i < NJOBS; i++) {
                const int fc = first_is_cipher(&g_jobs[i]);
                if (nondet_bool()) {
                        g_jobs[i].status = IMB_STATUS_BEING_PROCESSED;
                        (fc ? in_cipher : in_hash)[i] = 1;
                } else {
                        __CPROVER_assume(g_jobs[i].cipher_mode != IMB_CIPHER_GCM);
                        g_jobs[i].status = fc ? IMB_STATUS_COMPLETED_CIPHER : IMB_STATUS_COMPLETED_AUTH;
                        (fc ? in_hash : in_cipher)[i] = 1;
                }
        }
        g_alien_submit = g_order_bad = g_twice_bad = 0;
}

static void
check_common(void)
{
        __CPROVER_assert(!g_alien_submit, "[C04] a stage is only ever handed one of the jobs in flight (resubmitted as itself)");
        __CPROVER_assert(!g_twice_bad, "[C04][C06] no job is submitted to a stage that already ran or is running for it");
        __CPROVER_assert(!g_order_bad, "[C06] stages run in the job's own chain order: the second stage only after exactly the first");
        for (int i = 0; i < NJOBS; i++)
                __CPROVER_assert(cipher_submits[i] <= 1 && hash_submits[i] <= 1, "[C04][C06] each stage at most once per job and call");
}

void
h_submit_new_job(void)
{
        IMB_MGR *st = malloc(sizeof(*st));
        __CPROVER_assume(st != NULL);
        mk_world();
        g_jobs[0].status = IMB_STATUS_BEING_PROCESSED;
        const int burst = nondet_bool();

        IMB_JOB *r = burst ? submit_new_burst_job(st, &g_jobs[0]) : submit_new_job(st, &g_jobs[0]);

        check_common();
        __CPROVER_assert((first_is_cipher(&g_jobs[0]) ? cipher_submits[0] : hash_submits[0]) == 1, "[C06] the new job's first stage (per chain order; cipher for AES-GCM) is started");
        __CPROVER_assert(g_jobs[0].cipher_mode != IMB_CIPHER_GCM || hash_submits[0] == 0, "[C06] AES-GCM jobs never enter the hash stage");
        __CPROVER_assert(r == NULL || (idx_of(r) >= 0 && r->status >= IMB_STATUS_COMPLETED), "[C04][C05] submit_new_job hands back nothing or a finished job in flight");
        __CPROVER_assert(!(r == &g_jobs[1] && cipher_submits[1] == 1), "[VACUITY] another job's second stage driven by this submit reachable");
}

void
h_complete_job(void)
{
        IMB_MGR *st = malloc(sizeof(*st));
        __CPROVER_assume(st != NULL);
        mk_world();
        /* the job to complete is itself in flight */
        {
                const int fc = first_is_cipher(&g_jobs[0]);
                if (nondet_bool()) {
                        g_jobs[0].status = IMB_STATUS_BEING_PROCESSED;
                        (fc ? in_cipher : in_hash)[0] = 1;
                } else {
                        __CPROVER_assume(g_jobs[0].cipher_mode != IMB_CIPHER_GCM);
                        g_jobs[0].status = fc ? IMB_STATUS_COMPLETED_CIPHER : IMB_STATUS_COMPLETED_AUTH;
                        (fc ? in_hash : in_cipher)[0] = 1;
                }
        }
        const int burst = nondet_bool();

        if (burst) (void) complete_burst_job(st, &g_jobs[0]); else (void) complete_job(st, &g_jobs[0]);

        check_common();
        __CPROVER_assert(g_jobs[0].status >= IMB_STATUS_COMPLETED, "[C05] complete_job returns only when the job is finished");
        __CPROVER_assert(!(hash_submits[0] == 1), "[VACUITY] second stage of the completed job driven reachable");
}
