/*
 * C05 (+C14 frame/status/errno, C12 rejected-job path): the in-order ring scheduler of the
 * REAL per-variant unit against an abstract FIFO view.
 *
 * View: ghost slot indexes (g_e, g_n) and g_empty with
 *   next_job == g_n * sizeof(IMB_JOB), g_n < 256,
 *   g_empty ? earliest_job == -1 : earliest_job == g_e * sizeof(IMB_JOB), g_e < 256, g_e != g_n
 * so the queue holds cnt = (g_n - g_e) mod 256 in 1..255 jobs (or 0), slots g_e .. g_n-1.
 *
 * Slots: the single-job operations may touch two ring slots only, the tail slot g_n (the job
 * being submitted / offered) and the head slot g_e (the oldest job).  JOBS() - the one place
 * where the code turns a byte offset into a slot pointer - is swapped for a model that
 *   (1) asserts the offset is a slot boundary inside the ring,
 *   (2) returns the tracked object of slot g_n or g_e, and
 *   (3) fails if any OTHER slot is asked for  (=> every other descriptor is untouched).
 * That the real JOBS(off) is &state->jobs[off / sizeof(IMB_JOB)] for slot boundaries is the
 * c05_jobs_lemma unit.  This keeps the queries free of byte-offset dereferences into the 56 KB
 * manager object (what made the first formulation take > 15 min per function).
 * The stage sequencers and the parameter check are swapped for over-approximating models
 * (stubs/c05_models.c).
 */
#include "cprover_shim.h"
#include <stdlib.h>
#include <stddef.h>
#include UNIT_FILE

#define SZ ((int) sizeof(IMB_JOB))
#define NJ IMB_MAX_JOBS

/* ---- ghost state ---- */
unsigned g_e, g_n;
int g_empty;
IMB_JOB g_slot_n, g_slot_e; /* the objects standing for state->jobs[g_n] and state->jobs[g_e] */
extern unsigned g_submit_new_calls, g_complete_calls, g_check_calls;
extern int g_check_ret, g_check_errno;
extern IMB_JOB *g_submitted;

static inline int
ring_ok(const IMB_MGR *st)
{
        return st->next_job == (int) (g_n * SZ) && g_n < NJ && g_e < NJ &&
               (g_empty ? st->earliest_job == -1
                        : (st->earliest_job == (int) (g_e * SZ) && g_e != g_n));
}

static inline unsigned
view_cnt(void)
{
        return g_empty ? 0 : ((g_n - g_e) & (NJ - 1));
}

static inline unsigned
nxt(const unsigned i)
{
        return (i + 1) & (NJ - 1);
}

/* a job may be handed back only when no stage is outstanding.  (That the stages only ever
 * produce the enumerators COMPLETED / INVALID_ARGS / INTERNAL_ERROR is a stage-level fact,
 * proved in the dispatcher units; the ring must not hand back BEING_PROCESSED or a
 * half-done COMPLETED_CIPHER / COMPLETED_AUTH job.) */
static inline int
handback_status(const IMB_JOB *j)
{
        return j->status >= IMB_STATUS_COMPLETED;
}

#define RING_PRE(state)                                                                            \
        __CPROVER_requires(__CPROVER_is_fresh(state, sizeof(*state)))                              \
        __CPROVER_requires(ring_ok(state) && g_submitted == NULL)

/* frame of the ring operations: control fields, error code and the STATUS of the two slots */
#define RING_FRAME(state)                                                                          \
        __CPROVER_assigns(state->earliest_job, state->next_job, state->imb_errno, imb_errno,       \
                          g_slot_n.status, g_slot_e.status, g_submit_new_calls, g_complete_calls,  \
                          g_check_calls, g_check_ret, g_check_errno, g_submitted)

/* ---------------- GET_NEXT_JOB ---------------- */
IMB_JOB *
contract_get_next_job(IMB_MGR *state)
        /* clang-format off */
RING_PRE(state)
__CPROVER_assigns(state->imb_errno, imb_errno)
__CPROVER_ensures(__CPROVER_return_value == &g_slot_n)                   /* the slot after the newest job */
__CPROVER_ensures(g_empty || ((g_n - g_e) & (NJ - 1)) != 0)             /* ... which is not awaiting return */
__CPROVER_ensures(state->imb_errno == 0 && imb_errno == 0)                /* [C14] */
        /* clang-format on */
        ;

/* ---------------- QUEUE_SIZE ---------------- */
uint32_t
contract_queue_size(IMB_MGR *state)
        /* clang-format off */
RING_PRE(state)
__CPROVER_assigns(state->imb_errno, imb_errno)
__CPROVER_ensures(__CPROVER_return_value == view_cnt())
__CPROVER_ensures(state->imb_errno == 0 && imb_errno == 0)                /* [C14] */
        /* clang-format on */
        ;

/* ---------------- GET_COMPLETED_JOB ---------------- */
IMB_JOB *
contract_get_completed_job(IMB_MGR *state)
        /* clang-format off */
RING_PRE(state)
__CPROVER_assigns(state->earliest_job, state->imb_errno, imb_errno)
/* empty, or oldest job not finished: nothing is handed back and nothing changes */
__CPROVER_ensures((g_empty || !handback_status(&g_slot_e)) ==>
                  (__CPROVER_return_value == NULL &&
                   state->earliest_job == __CPROVER_old(state->earliest_job)))
/* otherwise exactly the oldest job is handed back and leaves the view */
__CPROVER_ensures((!g_empty && handback_status(&g_slot_e)) ==>
                  (__CPROVER_return_value == &g_slot_e &&
                   state->earliest_job == (nxt(g_e) == g_n ? -1 : (int) (nxt(g_e) * SZ))))
__CPROVER_ensures(state->imb_errno == 0 && imb_errno == 0)                /* [C14] */
        /* clang-format on */
        ;

/* ---------------- FLUSH_JOB ---------------- */
IMB_JOB *
contract_flush_job(IMB_MGR *state)
        /* clang-format off */
RING_PRE(state)
RING_FRAME(state)
__CPROVER_ensures(g_empty ==> (__CPROVER_return_value == NULL && state->earliest_job == -1 &&
                               g_complete_calls == __CPROVER_old(g_complete_calls)))
__CPROVER_ensures(!g_empty ==> (__CPROVER_return_value == &g_slot_e && handback_status(&g_slot_e) &&
                                state->earliest_job == (nxt(g_e) == g_n ? -1 : (int) (nxt(g_e) * SZ))))
__CPROVER_ensures(state->next_job == (int) (g_n * SZ))
__CPROVER_ensures(state->imb_errno == 0 && imb_errno == 0)                /* [C14] */
        /* clang-format on */
        ;

/* ---------------- submit_job_and_check ---------------- */
IMB_JOB *
contract_submit_job_and_check(IMB_MGR *state, const int run_check)
        /* clang-format off */
RING_PRE(state)
RING_FRAME(state)
/* the new job always enters the queue at the tail */
__CPROVER_ensures(state->next_job == (int) (nxt(g_n) * SZ))
/* nothing handed back: the queue grew by one and was not full */
__CPROVER_ensures(__CPROVER_return_value == NULL ==>
                  (state->earliest_job == (int) ((g_empty ? g_n : g_e) * SZ) &&
                   (g_empty || nxt(g_n) != g_e)))
/* a job handed back is the oldest one, finished, and leaves the view */
__CPROVER_ensures(__CPROVER_return_value != NULL ==>
                  (__CPROVER_return_value == (g_empty ? &g_slot_n : &g_slot_e) &&
                   handback_status(__CPROVER_return_value) &&
                   state->earliest_job == (g_empty ? -1 : (int) (nxt(g_e) * SZ))))
/* full queue: the oldest job is forced to completion instead of being overwritten */
__CPROVER_ensures((!g_empty && nxt(g_n) == g_e) ==> __CPROVER_return_value != NULL)
/* rejected job: INVALID_ARGS, never handed to the stages, the check's error code kept */
__CPROVER_ensures((run_check && g_check_ret) ==>
                  (g_submit_new_calls == __CPROVER_old(g_submit_new_calls) &&
                   g_slot_n.status == IMB_STATUS_INVALID_ARGS && state->imb_errno == g_check_errno)) /* [C12][C14] */
/* accepted job: handed to the stages exactly once, as itself */
__CPROVER_ensures(!(run_check && g_check_ret) ==>
                  (g_submit_new_calls == __CPROVER_old(g_submit_new_calls) + 1 &&
                   g_submitted == &g_slot_n))                                 /* [C05] */
/* ... and the call leaves the error code at zero */
__CPROVER_ensures(!(run_check && g_check_ret) ==>
                  (state->imb_errno == 0 && imb_errno == 0))                  /* [C14] */
__CPROVER_ensures(g_check_calls == __CPROVER_old(g_check_calls) + (run_check ? 1 : 0))
        /* clang-format on */
        ;

/* ---------------- harnesses ---------------- */
#ifndef NATIVE_REPLAY
IMB_MGR *nondet_mgrp(void);
int nondet_int(void);
IMB_JOB nondet_job(void);
unsigned nondet_unsigned(void);

/* statics are zero-initialised in CBMC: give the two tracked slots arbitrary contents */
static IMB_MGR *
arbitrary_ring(void)
{
        g_slot_n = nondet_job();
        g_slot_e = nondet_job();
        g_e = nondet_unsigned();
        g_n = nondet_unsigned();
        g_empty = nondet_int();
        g_submit_new_calls = nondet_unsigned();
        g_complete_calls = nondet_unsigned();
        g_check_calls = nondet_unsigned();
        return nondet_mgrp();
}

#ifdef LEMMA_REAL_JOBS
/* lemma on the REAL JOBS(): for every slot k the byte-offset form is the typed slot pointer */
void
h_jobs_lemma(void)
{
        IMB_MGR *st = malloc(sizeof(*st));
        const unsigned k = nondet_unsigned();

        __CPROVER_assume(st != NULL && k < NJ);
        __CPROVER_assert(JOBS(st, (int) (k * SZ)) == &st->jobs[k],
                         "[C05] JOBS(state, k * sizeof(IMB_JOB)) == &state->jobs[k] for every slot k");
        __CPROVER_assert((const char *) JOBS(st, (int) (k * SZ)) + SZ <= (const char *) st + sizeof(*st),
                         "[C05][C07] every slot lies inside the manager object");
        __CPROVER_assert(k != 255, "[VACUITY] last slot reachable");
}
#endif

void h_get_next_job(void) { IMB_MGR *st = arbitrary_ring(); (void) GET_NEXT_JOB(st); }
void h_queue_size(void) { IMB_MGR *st = arbitrary_ring(); (void) QUEUE_SIZE(st); }
void h_get_completed_job(void) { IMB_MGR *st = arbitrary_ring(); (void) GET_COMPLETED_JOB(st); }
void h_flush_job(void) { IMB_MGR *st = arbitrary_ring(); (void) FLUSH_JOB(st); }
void h_submit_job(void) { IMB_MGR *st = arbitrary_ring(); (void) submit_job_and_check(st, nondet_int()); }
#endif
