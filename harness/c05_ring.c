/*
 * C05 (+C14 frame/status/errno, C12 rejected-job path): the in-order ring scheduler of the
 * REAL per-variant unit against an abstract FIFO view.
 *
 * View: ghost slot indexes (g_e, g_n) and g_empty with
 *   next_job == g_n * sizeof(IMB_JOB), g_n < 256,
 *   g_empty ? earliest_job == -1 : earliest_job == g_e * sizeof(IMB_JOB), g_e < 256, g_e != g_n
 * so the queue holds cnt = (g_n - g_e) mod 256 in 1..255 jobs (or 0), slots g_e .. g_n-1.
 * The stage sequencers (submit_new_job, complete_job and their burst twins) and the parameter
 * check are swapped for over-approximating models (stubs/c05_models.c): any slot's status may
 * progress, the job handed back is in flight and has status >= COMPLETED.
 */
#include "cprover_shim.h"
#include <stdlib.h>
#include <stddef.h>
#include UNIT_FILE

#define SZ ((int) sizeof(IMB_JOB))
#define NJ IMB_MAX_JOBS

/* ---- ghost state ---- */
unsigned g_e, g_n;
int g_empty;
/* arbitrary caller-owned descriptor byte of an arbitrary slot, watched for preservation:
 * g_off = g_k * sizeof(IMB_JOB) + g_f with g_f outside the status field */
unsigned g_k, g_f;
uint8_t g_byte;   /* its pre-state value */
extern unsigned g_submit_new_calls, g_complete_calls, g_check_calls;
extern int g_check_ret, g_check_errno;

static inline int
ring_ok(const IMB_MGR *st)
{
        return st->next_job == (int) (g_n * SZ) && g_n < NJ && g_e < NJ &&
               (g_empty ? st->earliest_job == -1
                        : (st->earliest_job == (int) (g_e * SZ) && g_e < NJ && g_e != g_n));
}

static inline unsigned
view_cnt(void)
{
        return g_empty ? 0 : ((g_n - g_e) & (NJ - 1));
}

static inline unsigned
nxt(const unsigned i)
{
        return (i + 1) & (NJ - 1);
}

/* byte offset of the watched descriptor byte inside state->jobs */
static inline unsigned
watched_off(void)
{
        return g_k * (unsigned) SZ + g_f;
}

static inline int
watched_ok(void)
{
        return g_k < NJ && g_f < (unsigned) SZ &&
               !(g_f >= offsetof(IMB_JOB, status) &&
                 g_f < offsetof(IMB_JOB, status) + sizeof(((IMB_JOB *) 0)->status));
}

static inline uint8_t
watched_byte(const IMB_MGR *st)
{
#ifdef EXP_NO_WATCH
        return g_byte;
#endif
        return ((const uint8_t *) st->jobs)[watched_off()];
}

static inline int
handback_status(const IMB_JOB *j)
{
        return j->status == IMB_STATUS_COMPLETED || j->status == IMB_STATUS_INVALID_ARGS ||
               j->status == IMB_STATUS_INTERNAL_ERROR || j->status == IMB_STATUS_ERROR;
}

#define RING_PRE(state)                                                                            \
        __CPROVER_requires(__CPROVER_is_fresh(state, sizeof(*state)))                              \
        __CPROVER_requires(ring_ok(state))                                                         \
        __CPROVER_requires(watched_ok() && watched_byte(state) == g_byte)

#ifdef EXP_FROM
#define RING_RANGE(state) __CPROVER_object_from(state->jobs)
#else
#define RING_RANGE(state) __CPROVER_object_upto(state->jobs, sizeof(state->jobs))
#endif
#define RING_FRAME(state)                                                                          \
        __CPROVER_assigns(state->earliest_job, state->next_job, state->imb_errno, imb_errno,       \
                          RING_RANGE(state),                                                       \
                          g_submit_new_calls, g_complete_calls, g_check_calls)

/* ---------------- GET_NEXT_JOB ---------------- */
IMB_JOB *
contract_get_next_job(IMB_MGR *state)
        /* clang-format off */
RING_PRE(state)
__CPROVER_assigns(state->imb_errno, imb_errno)
__CPROVER_ensures(__CPROVER_return_value == &state->jobs[g_n])            /* the slot after the newest job */
__CPROVER_ensures(g_empty || ((g_n - g_e) & (NJ - 1)) != 0)             /* ... which is not awaiting return */
__CPROVER_ensures(state->imb_errno == 0 && imb_errno == 0)
        /* clang-format on */
        ;

/* ---------------- QUEUE_SIZE ---------------- */
uint32_t
contract_queue_size(IMB_MGR *state)
        /* clang-format off */
RING_PRE(state)
__CPROVER_assigns(state->imb_errno, imb_errno)
__CPROVER_ensures(__CPROVER_return_value == view_cnt())
__CPROVER_ensures(state->imb_errno == 0 && imb_errno == 0)
        /* clang-format on */
        ;

/* ---------------- GET_COMPLETED_JOB ---------------- */
IMB_JOB *
contract_get_completed_job(IMB_MGR *state)
        /* clang-format off */
RING_PRE(state)
__CPROVER_assigns(state->earliest_job, state->imb_errno, imb_errno)
/* empty, or oldest job not finished: nothing is handed back and nothing changes */
__CPROVER_ensures((g_empty || __CPROVER_old(state->jobs[g_e].status) < IMB_STATUS_COMPLETED) ==>
                  (__CPROVER_return_value == NULL &&
                   state->earliest_job == __CPROVER_old(state->earliest_job)))
/* otherwise exactly the oldest job is handed back and leaves the view */
__CPROVER_ensures((!g_empty && __CPROVER_old(state->jobs[g_e].status) >= IMB_STATUS_COMPLETED) ==>
                  (__CPROVER_return_value == &state->jobs[g_e] &&
                   state->earliest_job == (nxt(g_e) == g_n ? -1 : (int) (nxt(g_e) * SZ))))
__CPROVER_ensures(state->imb_errno == 0 && imb_errno == 0)
        /* clang-format on */
        ;

/* ---------------- FLUSH_JOB ---------------- */
IMB_JOB *
contract_flush_job(IMB_MGR *state)
        /* clang-format off */
RING_PRE(state)
RING_FRAME(state)
__CPROVER_ensures(g_empty ==> (__CPROVER_return_value == NULL && state->earliest_job == -1 &&
                               g_complete_calls == __CPROVER_old(g_complete_calls)))
__CPROVER_ensures(!g_empty ==> (__CPROVER_return_value == &state->jobs[g_e] &&
                                handback_status(&state->jobs[g_e]) &&
                                state->earliest_job == (nxt(g_e) == g_n ? -1 : (int) (nxt(g_e) * SZ))))
__CPROVER_ensures(state->next_job == (int) (g_n * SZ))
__CPROVER_ensures(watched_byte(state) == g_byte)                            /* [C14] descriptors unaltered */
__CPROVER_ensures(state->imb_errno == 0 && imb_errno == 0)
        /* clang-format on */
        ;

/* ---------------- submit_job_and_check ---------------- */
IMB_JOB *
contract_submit_job_and_check(IMB_MGR *state, const int run_check)
        /* clang-format off */
RING_PRE(state)
RING_FRAME(state)
/* the new job always enters the queue at the tail */
__CPROVER_ensures(state->next_job == (int) (nxt(g_n) * SZ))
/* nothing handed back: the queue grew by one and was not full */
__CPROVER_ensures(__CPROVER_return_value == NULL ==>
                  (state->earliest_job == (int) ((g_empty ? g_n : g_e) * SZ) &&
                   (g_empty || nxt(g_n) != g_e)))
/* a job handed back is the oldest one, finished, and leaves the view */
__CPROVER_ensures(__CPROVER_return_value != NULL ==>
                  (__CPROVER_return_value == &state->jobs[g_empty ? g_n : g_e] &&
                   handback_status(__CPROVER_return_value) &&
                   state->earliest_job == (g_empty ? -1 : (int) (nxt(g_e) * SZ))))
/* full queue: the oldest job is forced to completion instead of being overwritten */
__CPROVER_ensures((!g_empty && nxt(g_n) == g_e) ==> __CPROVER_return_value != NULL)
/* rejected job: INVALID_ARGS, never handed to the stages, error code kept */
__CPROVER_ensures((run_check && g_check_ret) ==>
                  (g_submit_new_calls == __CPROVER_old(g_submit_new_calls) &&
                   (state->jobs[g_n].status == IMB_STATUS_INVALID_ARGS ||
                    /* ... unless it was also the one handed back and then ... it still is */ 0) &&
                   state->imb_errno == g_check_errno))
/* accepted job: submitted to the stages exactly once, error code zero */
__CPROVER_ensures(!(run_check && g_check_ret) ==>
                  (g_submit_new_calls == __CPROVER_old(g_submit_new_calls) + 1 &&
                   state->imb_errno == 0 && imb_errno == 0))
__CPROVER_ensures(g_check_calls == __CPROVER_old(g_check_calls) + (run_check ? 1 : 0))
__CPROVER_ensures(watched_byte(state) == g_byte)                            /* [C14] descriptors unaltered */
        /* clang-format on */
        ;

/* ---------------- harnesses ---------------- */
#ifndef NATIVE_REPLAY
IMB_MGR *nondet_mgrp(void);
int nondet_int(void);

void h_get_next_job(void) { IMB_MGR *st = nondet_mgrp(); (void) GET_NEXT_JOB(st); }
void h_queue_size(void) { IMB_MGR *st = nondet_mgrp(); (void) QUEUE_SIZE(st); }
void h_get_completed_job(void) { IMB_MGR *st = nondet_mgrp(); (void) GET_COMPLETED_JOB(st); }
void h_flush_job(void) { IMB_MGR *st = nondet_mgrp(); (void) FLUSH_JOB(st); }
void h_submit_job(void) { IMB_MGR *st = nondet_mgrp(); (void) submit_job_and_check(st, nondet_int()); }
#endif
