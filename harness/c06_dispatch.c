/*
 * C06 table layer on the REAL per-variant unit (UNIT_FILE, e.g. sse_t1/mb_mgr_sse_t1.c):
 * for every job accepted by the real is_job_invalid(), the function pointer selected by
 * calc_cipher_tab_index()/hash_alg/suite_id reaches a dispatcher whose contract REQUIRES that
 * it is called with the job's own cipher mode / key size / direction / hash algorithm.
 * The six dispatchers (and the six directly bound AES-GCM entries) are swapped for models that
 * assert these preconditions at every call site (goto-instrument --remove-function-body + link);
 * everything else is the code as it is.  (DFCC's --replace-call-with-contract was tried first:
 * instrumenting all ~660 functions of the unit made the same query run > 15 min instead of < 1.)
 */
#include "cprover_shim.h"
#include <stdlib.h>
#include UNIT_FILE
#include "suite_table.h"

int g_accepted; /* ghost: verdict of the real parameter check on this descriptor */

/* the dispatcher preconditions live in stubs/c06_dispatch_stubs.c */
extern unsigned g_cipher_disp, g_hash_disp;

/* ---- harnesses ---- */
#ifndef NATIVE_REPLAY
static IMB_MGR *
mk_state(void)
{
        IMB_MGR *state = malloc(sizeof(*state));
        __CPROVER_assume(state != NULL);
        return state;
}

static IMB_JOB *
mk_accepted_job(IMB_MGR *state)
{
        IMB_JOB *job = malloc(sizeof(*job));
        __CPROVER_assume(job != NULL);
        /* the segment arrays of SGL_ALL jobs play no role in dispatch: keep the checker's loop short */
        __CPROVER_assume(job->sgl_state != IMB_SGL_ALL || job->num_sgl_io_segs <= 2);
        g_accepted = (is_job_invalid(state, job, job->cipher_mode, job->hash_alg,
                                     job->cipher_direction, job->key_len_in_bytes) == 0);
        __CPROVER_assume(g_accepted);
        /* reachability probes (must fail): accepted jobs exist in rarely used corners */
        __CPROVER_assert(!(job->cipher_mode == IMB_CIPHER_SM4_CBC && job->hash_alg == IMB_AUTH_ZUC256_EIA3_BITLEN),
                         "[VACUITY] an accepted SM4-CBC + ZUC256-EIA3 job exists");
        __CPROVER_assert(!(job->cipher_mode == IMB_CIPHER_GCM && job->cipher_direction == IMB_DIR_DECRYPT &&
                           job->key_len_in_bytes == 24),
                         "[VACUITY] an accepted AES-GCM-192 decrypt job exists");
        return job;
}

void
h_submit_cipher(void)
{
        IMB_MGR *state = mk_state();
        IMB_JOB *job = mk_accepted_job(state);
        (void) SUBMIT_JOB_CIPHER(state, job);
        __CPROVER_assert(g_cipher_disp == 1 && g_hash_disp == 0,
                         "[C06] cipher submit runs exactly one cipher dispatcher and no hash");
}

void
h_flush_cipher(void)
{
        IMB_MGR *state = mk_state();
        IMB_JOB *job = mk_accepted_job(state);
        (void) FLUSH_JOB_CIPHER(state, job);
        __CPROVER_assert(g_cipher_disp == 1 && g_hash_disp == 0,
                         "[C06] cipher flush runs exactly one cipher dispatcher and no hash");
}

void
h_submit_hash(void)
{
        IMB_MGR *state = mk_state();
        IMB_JOB *job = mk_accepted_job(state);
        (void) SUBMIT_JOB_HASH(state, job);
        __CPROVER_assert(g_cipher_disp == 0 && g_hash_disp == 1,
                         "[C06] hash submit runs exactly one hash dispatcher and no cipher");
}

void
h_flush_hash(void)
{
        IMB_MGR *state = mk_state();
        IMB_JOB *job = mk_accepted_job(state);
        (void) FLUSH_JOB_HASH(state, job);
        __CPROVER_assert(g_cipher_disp == 0 && g_hash_disp == 1,
                         "[C06] hash flush runs exactly one hash dispatcher and no cipher");
}

/* burst path: suite id computed by the real SET_SUITE_ID_FN, then the CALL_* entries */
void
h_call_suite(void)
{
        IMB_MGR *state = mk_state();
        IMB_JOB *job = mk_accepted_job(state);
        int which;

        SET_SUITE_ID_FN(state, job);
        __CPROVER_assert(job->suite_id[0] == calc_cipher_tab_index(job) &&
                                 job->suite_id[1] == (unsigned) job->hash_alg,
                         "[C06][C09] suite id = (cipher table index, hash algorithm): the burst API dispatches through the same table entries as the job API");
        if (which == 0)
                (void) CALL_SUBMIT_CIPHER(state, job);
        else if (which == 1)
                (void) CALL_FLUSH_CIPHER(state, job);
        else if (which == 2)
                (void) CALL_SUBMIT_HASH(state, job);
        else
                (void) CALL_FLUSH_HASH(state, job);
}
#endif
