/*
 * C08: variant selection of the REAL family initialisers (lib/sse_t1/mb_mgr_sse.c,
 * lib/avx2_t1/mb_mgr_avx2.c, lib/avx512_t1/mb_mgr_avx512.c, lib/x86_64/mb_mgr_auto.c) and the
 * real cpu_feature_adjust(), for ALL 2^64 detected feature words and all flag words.
 * The nine per-variant initialisers and the self-test are other translation units: their
 * models carry the obligations as preconditions asserted at the call site:
 *   init_mb_mgr_<variant>_internal  REQUIRES  IMB_CPUFLAGS_<VARIANT> within state->features
 *   self_test                       REQUIRES  a variant was initialised by this call
 * cpu_feature_detect() is a fixed but arbitrary word (the CPU does not change between calls).
 */
#include <stdlib.h>
#include <stdint.h>
#include "intel-ipsec-mb.h"
#include "x86_64/cpu_feature.c"
#include "sse_t1/mb_mgr_sse.c"
#include "avx2_t1/mb_mgr_avx2.c"
#include "avx512_t1/mb_mgr_avx512.c"
#include "x86_64/mb_mgr_auto.c"

uint64_t nondet_u64(void);
int nondet_int(void);
_Bool nondet_bool(void);

uint64_t g_cpu;          /* what cpuid reports (fixed, arbitrary) */
unsigned g_variant_calls, g_selftest_calls;
uint64_t g_variant_need; /* flag set of the variant that was initialised */
int g_variant_reset_arg;
int g_variant_id;        /* 1..9 */

uint64_t cpu_feature_detect_model(void) { return g_cpu; }

#define VARIANT(fn, NEED, ID)                                                                      \
        void fn(IMB_MGR *state, const int reset_mgrs)                                              \
        {                                                                                          \
                __CPROVER_assert((state->features & (NEED)) == (NEED),                             \
                                 "[C08] " #fn " runs only if every CPU flag it needs is present"); \
                __CPROVER_assert(state->features == cpu_feature_adjust(state->flags, g_cpu),       \
                                 "[C08] variant chosen from features = adjust(flags, cpuid)");     \
                g_variant_calls++;                                                                 \
                g_variant_need = (NEED);                                                           \
                g_variant_reset_arg = reset_mgrs;                                                  \
                g_variant_id = (ID);                                                               \
                state->used_arch = (ID); /* the real ones record themselves and bind handlers */   \
        }
VARIANT(init_mb_mgr_sse_t1_internal, IMB_CPUFLAGS_SSE, 1)
VARIANT(init_mb_mgr_sse_t2_internal, IMB_CPUFLAGS_SSE_T2, 2)
VARIANT(init_mb_mgr_sse_t3_internal, IMB_CPUFLAGS_SSE_T3, 3)
VARIANT(init_mb_mgr_avx2_t1_internal, IMB_CPUFLAGS_AVX2, 4)
VARIANT(init_mb_mgr_avx2_t2_internal, IMB_CPUFLAGS_AVX2_T2, 5)
VARIANT(init_mb_mgr_avx2_t3_internal, IMB_CPUFLAGS_AVX2_T3, 6)
VARIANT(init_mb_mgr_avx2_t4_internal, IMB_CPUFLAGS_AVX2_T4, 7)
VARIANT(init_mb_mgr_avx512_t1_internal, IMB_CPUFLAGS_AVX512, 8)
VARIANT(init_mb_mgr_avx512_t2_internal, IMB_CPUFLAGS_AVX512_T2, 9)

int g_selftest_ret;
int
self_test(IMB_MGR *p_mgr)
{
        __CPROVER_assert(p_mgr != NULL && g_variant_calls == 1,
                         "[C08] the self-test (which runs the variant's kernels through the manager's handlers) "
                         "is only executed after a variant was successfully initialised");
        g_selftest_calls++;
        return g_selftest_ret;
}

static IMB_MGR *
mk_state(const int allow_null)
{
        IMB_MGR *st = malloc(sizeof(*st));

        __CPROVER_assume(st != NULL);
        g_cpu = nondet_u64();
        g_selftest_ret = nondet_int();
        /* as left by alloc_mb_mgr()/imb_set_pointers_mb_mgr(): features = adjust(flags, cpuid) */
        st->features = cpu_feature_adjust(st->flags, g_cpu);
        if (allow_null && nondet_bool())
                return NULL;
        return st;
}

static uint64_t
widest(const uint64_t f, const int family)
{
        if (family == 1)
                return (f & IMB_CPUFLAGS_SSE_T3) == IMB_CPUFLAGS_SSE_T3 ? IMB_CPUFLAGS_SSE_T3
                       : (f & IMB_CPUFLAGS_SSE_T2) == IMB_CPUFLAGS_SSE_T2 ? IMB_CPUFLAGS_SSE_T2 : IMB_CPUFLAGS_SSE;
        if (family == 2)
                return
#ifdef SMX_NI
                        (f & IMB_CPUFLAGS_AVX2_T4) == IMB_CPUFLAGS_AVX2_T4 ? IMB_CPUFLAGS_AVX2_T4 :
#endif
#ifdef AVX_IFMA
                        (f & IMB_CPUFLAGS_AVX2_T3) == IMB_CPUFLAGS_AVX2_T3 ? IMB_CPUFLAGS_AVX2_T3 :
#endif
                        (f & IMB_CPUFLAGS_AVX2_T2) == IMB_CPUFLAGS_AVX2_T2 ? IMB_CPUFLAGS_AVX2_T2 : IMB_CPUFLAGS_AVX2;
        return (f & IMB_CPUFLAGS_AVX512_T2) == IMB_CPUFLAGS_AVX512_T2 ? IMB_CPUFLAGS_AVX512_T2 : IMB_CPUFLAGS_AVX512;
}

static void
check_family(IMB_MGR *st, const uint64_t base, const int family, const int public_entry)
{
        if (st == NULL) {
                __CPROVER_assert(imb_errno == IMB_ERR_NULL_MBMGR && g_variant_calls == 0 && g_selftest_calls == 0,
                                 "[C08][C12] NULL manager: IMB_ERR_NULL_MBMGR, nothing initialised, nothing executed");
                return;
        }
        const uint64_t f = cpu_feature_adjust(st->flags, g_cpu);
        if ((f & base) != base) {
                __CPROVER_assert(g_variant_calls == 0 && g_selftest_calls == 0,
                                 "[C08] missing CPU flags: no variant initialised and no kernel executed");
                __CPROVER_assert(st->imb_errno == IMB_ERR_MISSING_CPUFLAGS_INIT_MGR,
                                 "[C08] missing CPU flags reported as IMB_ERR_MISSING_CPUFLAGS_INIT_MGR");
        } else {
                __CPROVER_assert(g_variant_calls == 1, "[C08] exactly one variant initialised");
                __CPROVER_assert(g_variant_need == widest(f, family), "[C08] the widest variant the adjusted features allow is chosen");
                __CPROVER_assert(!(st->flags & IMB_FLAG_SHANI_OFF) || !(g_variant_need & IMB_FEATURE_SHANI),
                                 "[C08] IMB_FLAG_SHANI_OFF never selects a variant that needs SHA-NI");
                __CPROVER_assert(!(st->flags & IMB_FLAG_GFNI_OFF) || !(g_variant_need & IMB_FEATURE_GFNI),
                                 "[C08] IMB_FLAG_GFNI_OFF never selects a variant that needs GFNI");
                if (public_entry) {
                        __CPROVER_assert(g_variant_reset_arg == 1 && g_selftest_calls == 1, "[C08][C15] public init resets the managers and self-tests once");
                        __CPROVER_assert(st->imb_errno == (g_selftest_ret ? 0 : IMB_ERR_SELFTEST), "[C20][C14] IMB_ERR_SELFTEST iff the self-test failed");
                } else {
                        __CPROVER_assert(st->imb_errno == 0, "[C14] successful init leaves the error code at zero");
                }
        }
}

void h_init_sse(void) { IMB_MGR *st = mk_state(1); init_mb_mgr_sse(st); check_family(st, IMB_CPUFLAGS_SSE, 1, 1); }
void h_init_avx2(void) { IMB_MGR *st = mk_state(1); init_mb_mgr_avx2(st); check_family(st, IMB_CPUFLAGS_AVX2, 2, 1); }
void h_init_avx512(void) { IMB_MGR *st = mk_state(1); init_mb_mgr_avx512(st); check_family(st, IMB_CPUFLAGS_AVX512, 3, 1); }

void
h_init_internal(void)
{
        IMB_MGR *st = mk_state(1);
        const int which = nondet_int(), reset = nondet_int();

        if (which == 1) { init_mb_mgr_sse_internal(st, reset); check_family(st, IMB_CPUFLAGS_SSE, 1, 0); }
        else if (which == 2) { init_mb_mgr_avx2_internal(st, reset); check_family(st, IMB_CPUFLAGS_AVX2, 2, 0); }
        else { init_mb_mgr_avx512_internal(st, reset); check_family(st, IMB_CPUFLAGS_AVX512, 3, 0); }
        __CPROVER_assert(st == NULL || g_variant_calls == 0 || g_variant_reset_arg == reset, "[C16] reset_mgrs passed through unchanged");
        __CPROVER_assert(!(g_variant_calls == 1 && g_variant_id == 5), "[VACUITY] avx2 type-2 reachable");
}

void
h_init_auto(void)
{
        IMB_MGR *st = mk_state(1);
        IMB_ARCH arch = (IMB_ARCH) nondet_int();
        const int want_arch = nondet_bool();

        init_mb_mgr_auto(st, want_arch ? &arch : NULL);
        if (st == NULL) {
                __CPROVER_assert(imb_errno == IMB_ERR_NULL_MBMGR && g_variant_calls == 0, "[C08][C12] auto init: NULL manager refused");
                return;
        }
        const uint64_t f = cpu_feature_adjust(st->flags, g_cpu);
        const IMB_ARCH expect = (f & IMB_CPUFLAGS_AVX512) == IMB_CPUFLAGS_AVX512 ? IMB_ARCH_AVX512
                                : (f & IMB_CPUFLAGS_AVX2) == IMB_CPUFLAGS_AVX2 ? IMB_ARCH_AVX2
                                : (f & IMB_CPUFLAGS_SSE) == IMB_CPUFLAGS_SSE ? IMB_ARCH_SSE : IMB_ARCH_NONE;
        if (want_arch)
                __CPROVER_assert(arch == expect, "[C08] auto init reports the widest family the CPU supports");
        if (expect == IMB_ARCH_NONE)
                __CPROVER_assert(g_variant_calls == 0 && g_selftest_calls == 0 && st->imb_errno == IMB_ERR_MISSING_CPUFLAGS_INIT_MGR,
                                 "[C08] auto init without even the SSE flags: clean error, nothing executed");
        else
                __CPROVER_assert(g_variant_calls == 1 && g_selftest_calls == 1 &&
                                         g_variant_need == widest(f, expect == IMB_ARCH_SSE ? 1 : expect == IMB_ARCH_AVX2 ? 2 : 3),
                                 "[C08] auto init initialises exactly the widest variant of the widest family");
        __CPROVER_assert(expect != IMB_ARCH_AVX2, "[VACUITY] auto picks AVX2 for some CPU");
}
