/*
 * C11: imb_hmac_ipad_opad() of the REAL lib/x86_64/hmac_ipad_opad.c against RFC 2104 key
 * preparation, for ALL key lengths (bounded buffer: 0..160 bytes, covers every block size and
 * the over-long branch) and all seven hash selections:
 *   K' = key (padded with zeros)            if len <= block size B of the hash
 *   K' = H(key) (padded with zeros)         otherwise, H over exactly `len` bytes, digest size of H
 *   ipad block = K' xor 0x36.. (B bytes) -> one-block hash -> ipad_hash; same with 0x5c for opad
 * HMAC-MD5 with an over-long key is refused (IMB_ERR_KEY_LEN); unknown algorithm
 * IMB_ERR_HASH_ALGO; NULL outputs are skipped; the key copies are cleared.
 * The hash entry points are reached through the manager's handlers: logging models.
 */
#include <stdlib.h>
#include <stdint.h>
#include <string.h>
#include "x86_64/hmac_ipad_opad.c"

unsigned nondet_unsigned(void);
size_t nondet_size(void);
_Bool nondet_bool(void);

#define KMAX 160
static unsigned g_full_calls, g_blk_calls, g_i;
static const void *g_full_src;
static uint64_t g_full_len;
static int g_full_alg, g_blk_alg[2];
static uint8_t g_blk_obs[2];
static void *g_blk_out[2];
static uint8_t g_digest[64];
static unsigned g_clear;

static void full_model(const void *d, const uint64_t n, void *out, const int alg, const unsigned dsz)
{ g_full_calls++; g_full_src = d; g_full_len = n; g_full_alg = alg; memcpy(out, g_digest, dsz); }
static void blk_model(const void *d, void *out, const int alg)
{ if (g_blk_calls < 2) { g_blk_obs[g_blk_calls] = ((const uint8_t *) d)[g_i]; g_blk_out[g_blk_calls] = out; g_blk_alg[g_blk_calls] = alg; } g_blk_calls++; }

static void m_sha1(const void *d, const uint64_t n, void *o) { full_model(d, n, o, IMB_AUTH_HMAC_SHA_1, 20); }
static void m_sha224(const void *d, const uint64_t n, void *o) { full_model(d, n, o, IMB_AUTH_HMAC_SHA_224, 28); }
static void m_sha256(const void *d, const uint64_t n, void *o) { full_model(d, n, o, IMB_AUTH_HMAC_SHA_256, 32); }
static void m_sha384(const void *d, const uint64_t n, void *o) { full_model(d, n, o, IMB_AUTH_HMAC_SHA_384, 48); }
static void m_sha512(const void *d, const uint64_t n, void *o) { full_model(d, n, o, IMB_AUTH_HMAC_SHA_512, 64); }
static void b_sha1(const void *d, void *o) { blk_model(d, o, IMB_AUTH_HMAC_SHA_1); }
static void b_sha224(const void *d, void *o) { blk_model(d, o, IMB_AUTH_HMAC_SHA_224); }
static void b_sha256(const void *d, void *o) { blk_model(d, o, IMB_AUTH_HMAC_SHA_256); }
static void b_sha384(const void *d, void *o) { blk_model(d, o, IMB_AUTH_HMAC_SHA_384); }
static void b_sha512(const void *d, void *o) { blk_model(d, o, IMB_AUTH_HMAC_SHA_512); }
static void b_md5(const void *d, void *o) { blk_model(d, o, IMB_AUTH_MD5); }
/* NASM / other TUs */
void sm3_msg_sse(void *tag, const uint64_t tag_len, const void *msg, const uint64_t msg_len) { (void) tag_len; full_model(msg, msg_len, tag, IMB_AUTH_HMAC_SM3, 32); }
void sm3_one_block_sse(void *tag, const void *msg) { blk_model(msg, tag, IMB_AUTH_HMAC_SM3); }
void safe_memcpy(void *dst, const void *src, const size_t n) { memcpy(dst, src, n); }
void imb_clear_mem(void *p, const size_t n) { g_clear++; memset(p, 0, n); }

static size_t blk_of(const int a) { return (a == IMB_AUTH_HMAC_SHA_384 || a == IMB_AUTH_HMAC_SHA_512) ? 128 : 64; }
static size_t dig_of(const int a)
{
        return a == IMB_AUTH_HMAC_SHA_1 ? 20 : a == IMB_AUTH_HMAC_SHA_224 ? 28 : a == IMB_AUTH_HMAC_SHA_256 ? 32 :
               a == IMB_AUTH_HMAC_SHA_384 ? 48 : a == IMB_AUTH_HMAC_SHA_512 ? 64 : a == IMB_AUTH_HMAC_SM3 ? 32 : 16;
}

void
h_hmac_ipad_opad(void)
{
        IMB_MGR *m = malloc(sizeof(*m));
        uint8_t key[KMAX], ip[64], op[64];
        const size_t len = nondet_size();
        const int alg = (int) nondet_unsigned();
        const int want_i = nondet_bool(), want_o = nondet_bool();

        __CPROVER_assume(m != NULL && len <= KMAX);
        m->sha1 = m_sha1; m->sha224 = m_sha224; m->sha256 = m_sha256; m->sha384 = m_sha384; m->sha512 = m_sha512;
        m->sha1_one_block = b_sha1; m->sha224_one_block = b_sha224; m->sha256_one_block = b_sha256;
        m->sha384_one_block = b_sha384; m->sha512_one_block = b_sha512; m->md5_one_block = b_md5;
        for (unsigned i = 0; i < KMAX; i++) key[i] = (uint8_t) nondet_unsigned();
        for (unsigned i = 0; i < 64; i++) g_digest[i] = (uint8_t) nondet_unsigned();
        g_i = nondet_unsigned();
        const int known = alg == IMB_AUTH_HMAC_SHA_1 || alg == IMB_AUTH_HMAC_SHA_224 || alg == IMB_AUTH_HMAC_SHA_256 ||
                          alg == IMB_AUTH_HMAC_SHA_384 || alg == IMB_AUTH_HMAC_SHA_512 || alg == IMB_AUTH_MD5 || alg == IMB_AUTH_HMAC_SM3;
        const size_t B = blk_of(alg);
        __CPROVER_assume(g_i < B);

        imb_hmac_ipad_opad(m, (IMB_HASH_ALG) alg, key, len, want_i ? ip : NULL, want_o ? op : NULL);

        if (!known) {
                __CPROVER_assert(g_full_calls == 0 && g_blk_calls == 0 && imb_errno == IMB_ERR_HASH_ALGO, "[C11][C12] unknown hash algorithm refused (IMB_ERR_HASH_ALGO), nothing hashed");
        } else if (alg == IMB_AUTH_MD5 && len > 64) {
                __CPROVER_assert(g_full_calls == 0 && g_blk_calls == 0 && imb_errno == IMB_ERR_KEY_LEN, "[C11][C12] HMAC-MD5 key longer than a block refused (IMB_ERR_KEY_LEN), nothing hashed");
        } else {
                const int longkey = len > B;
                __CPROVER_assert(g_full_calls == (longkey ? 1u : 0u), "[C11] the key is hashed first iff it is longer than the block size");
                if (longkey)
                        __CPROVER_assert(g_full_src == key && g_full_len == len && g_full_alg == alg, "[C11] over-long key: H(key) over exactly key_len bytes with the HMAC's own hash");
                __CPROVER_assert(g_blk_calls == (unsigned) (want_i + want_o), "[C11] one one-block hash per requested pad, NULL outputs skipped");
                const size_t klen = longkey ? dig_of(alg) : len;
                const uint8_t kb = g_i < klen ? (longkey ? g_digest[g_i] : key[g_i]) : 0;
                unsigned c = 0;
                if (want_i) {
                        __CPROVER_assert(g_blk_obs[c] == (uint8_t) (kb ^ 0x36) && g_blk_out[c] == ip && g_blk_alg[c] == alg, "[C11] ipad block = (K' padded with zeros) xor 0x36 over the whole block, hashed into ipad_hash");
                        c++;
                }
                if (want_o)
                        __CPROVER_assert(g_blk_obs[c] == (uint8_t) (kb ^ 0x5c) && g_blk_out[c] == op && g_blk_alg[c] == alg, "[C11] opad block = (K' padded with zeros) xor 0x5c over the whole block, hashed into opad_hash");
                __CPROVER_assert(m->imb_errno == 0, "[C14] error code zero on success");
                __CPROVER_assert(g_clear >= 2, "[C13] both key-derived stack buffers are cleared before return");
        }
        __CPROVER_assert(!(alg == IMB_AUTH_HMAC_SHA_384 && len == 129 && g_i == 47), "[VACUITY] over-long SHA-384 key reachable");
}

void
h_hmac_ipad_opad_null(void)
{
        IMB_MGR *m = malloc(sizeof(*m));
        uint8_t key[8], ip[64];
        __CPROVER_assume(m != NULL);
        if (nondet_bool()) {
                imb_hmac_ipad_opad(NULL, IMB_AUTH_HMAC_SHA_1, key, 8, ip, ip);
                __CPROVER_assert(imb_errno == IMB_ERR_NULL_MBMGR && g_blk_calls == 0, "[C12] NULL manager refused (IMB_ERR_NULL_MBMGR)");
        } else {
                imb_hmac_ipad_opad(m, IMB_AUTH_HMAC_SHA_1, NULL, 8, ip, ip);
                __CPROVER_assert(m->imb_errno == IMB_ERR_NULL_KEY && g_blk_calls == 0, "[C12] NULL key refused (IMB_ERR_NULL_KEY)");
        }
}
