/*
 * C02 (+C07, C13, C12 direct API): SHA-1/224/256/384/512 one-shot wrappers of the REAL
 * lib/<variant>/sha_*.c + lib/include/sha_generic.h against FIPS 180-4 framing.
 * The one-block compression functions are NASM: modelled as uninterpreted (they log what they
 * are given and leave a fixed arbitrary chaining value).  Decided here, for every message of
 * the bounded length range and every content:
 *   - the number of blocks compressed = FIPS padded length / block size
 *   - for an ARBITRARY (block j, byte i) - ghost indexes - the byte handed to the kernel is the
 *     FIPS-padded message byte (message, 0x80, zeros, 64/128-bit big-endian bit length): the
 *     55/56/64 and 111/112/128 thresholds are points of the domain
 *   - the first block is compressed from the FIPS initial hash value of THAT algorithm
 *   - the digest written out is the big-endian image of the final chaining value, truncated to
 *     the algorithm's digest size, and nothing beyond it is written
 *   - the kernel used belongs to the algorithm; NULL arguments are refused with the error code
 * BOUND: message length 0 .. 2*block+17 bytes (main loop unwound; see DESIGN.md for the
 * loop-contract route).
 */
#include <stdlib.h>
#include <stdint.h>
#include <string.h>
#include SHA_FILE
#include "fips180.h"

#define CAT_(a, b) a##b
#define CAT(a, b) CAT_(a, b)

uint64_t nondet_u64(void);
unsigned nondet_unsigned(void);
_Bool nondet_bool(void);

/* ghost */
#ifdef SHA_UNBOUNDED
/* any-length unit: the full-block loop of sha_generic() is closed by a loop contract (vlib/loopgen.py);
 * these appear in its invariant, so they are plain globals */
uint64_t g_calls, g_blk, g_full;
const uint8_t *g_msgp;
int g_ptr_ok, g_fam_ok;
static uint64_t g_j;
static unsigned g_i;
static int g_obs_set, g_kernel_family, g_iv_ok;
static uint8_t g_obs;
static int family_ok(const int t, const int fam);
#else
static unsigned g_calls, g_j, g_i;
static int g_obs_set, g_kernel_family, g_iv_ok;
static uint8_t g_obs;
#endif
static uint64_t g_final[8]; /* the (arbitrary) chaining value every compression leaves */
static int g_type;          /* algorithm under test */

static void
kernel_model(const void *inp, void *digest, const int family)
{
        const uint8_t *p = (const uint8_t *) inp;

#ifdef SHA_UNBOUNDED
        /* whole blocks are compressed in place, in order: block k is fed from message offset k * block */
        if (g_calls < g_full && p != g_msgp + g_calls * g_blk)
                g_ptr_ok = 0;
        if (!family_ok(g_type, family))
                g_fam_ok = 0;
        if (g_calls == g_j && g_calls >= g_full) {      /* a padding block: watch one of its bytes */
                g_obs = p[g_i];
                g_obs_set = 1;
        }
        g_calls++;
        memcpy(digest, g_final, (g_type == 384 || g_type == 512) ? 64 : (g_type == 1 ? 20 : 32));
        return;
#endif
        if (g_calls == 0) {
                /* first block starts from the FIPS initial hash value of the algorithm */
                g_iv_ok = 1;
                for (unsigned w = 0; w < 8; w++) {
                        if (g_type == 1 && w < 5 && ((const uint32_t *) digest)[w] != FIPS_SHA1_IV[w]) g_iv_ok = 0;
                        if (g_type == 224 && ((const uint32_t *) digest)[w] != FIPS_SHA224_IV[w]) g_iv_ok = 0;
                        if (g_type == 256 && ((const uint32_t *) digest)[w] != FIPS_SHA256_IV[w]) g_iv_ok = 0;
                        if (g_type == 384 && ((const uint64_t *) digest)[w] != FIPS_SHA384_IV[w]) g_iv_ok = 0;
                        if (g_type == 512 && ((const uint64_t *) digest)[w] != FIPS_SHA512_IV[w]) g_iv_ok = 0;
                }
        }
        if (g_calls == g_j) {
                g_obs = p[g_i];
                g_obs_set = 1;
        }
        g_kernel_family = (g_calls == 0 || g_kernel_family == family) ? family : -1;
        g_calls++;
        memcpy(digest, g_final, (g_type == 384 || g_type == 512) ? 64 : (g_type == 1 ? 20 : 32));
}

/* NASM one-block kernels (all variants): family = the algorithms a kernel may serve */
void sha1_block_sse(const void *i, void *d) { kernel_model(i, d, 1); }
void sha1_ni_block_sse(const void *i, void *d) { kernel_model(i, d, 1); }
void sha224_block_sse(const void *i, void *d) { kernel_model(i, d, 224); }
void sha256_block_sse(const void *i, void *d) { kernel_model(i, d, 256); }
void sha256_ni_block_sse(const void *i, void *d) { kernel_model(i, d, 256224); } /* SHA-NI kernel shared by 224/256 */
void sha384_block_sse(const void *i, void *d) { kernel_model(i, d, 384); }
void sha512_block_sse(const void *i, void *d) { kernel_model(i, d, 512); }
void sha512_ni_block_avx2(const void *i, void *d) { kernel_model(i, d, 512384); }
void sha1_block_avx(const void *i, void *d) { kernel_model(i, d, 1); }
void sha224_block_avx(const void *i, void *d) { kernel_model(i, d, 224); }
void sha256_block_avx(const void *i, void *d) { kernel_model(i, d, 256); }
void sha384_block_avx(const void *i, void *d) { kernel_model(i, d, 384); }
void sha512_block_avx(const void *i, void *d) { kernel_model(i, d, 512); }
/* SAFE_DATA helpers in NASM */
static unsigned g_clear_calls;
void force_memset_zero(void *p, const uint64_t n) { g_clear_calls++; memset(p, 0, n); }
void force_memset_zero_vol(volatile void *p, const uint64_t n) { g_clear_calls++; memset((void *) p, 0, n); }
void clear_scratch_gps(void) {}
void clear_scratch_xmms_sse(void) {}
void clear_scratch_xmms_avx(void) {}
void clear_scratch_ymms(void) {}
void clear_scratch_zmms(void) {}

static int
family_ok(const int t, const int fam)
{
        if (fam == t)
                return 1;
        if (fam == 256224)
                return t == 224 || t == 256;
        if (fam == 512384)
                return t == 384 || t == 512;
        return 0;
}

typedef void (*sha_fn)(const void *, const uint64_t, void *);

static void
check_sha(const int t, sha_fn fn)
{
        const uint64_t blk = fips_blk(t);
        const uint64_t len = nondet_u64();
        uint8_t *msg, *out;
        const uint64_t dsz = fips_digest_bytes(t);
        const unsigned slack = 8;

        __CPROVER_assume(len <= 2 * blk + 17);
        msg = malloc(len);
        out = malloc(dsz + slack);
        __CPROVER_assume(out != NULL && (msg != NULL || len == 0));
        g_type = t;
        g_calls = 0;
        g_obs_set = 0;
        g_j = nondet_unsigned();
        g_i = nondet_unsigned();
        __CPROVER_assume(g_i < blk);
        for (unsigned w = 0; w < 8; w++)
                g_final[w] = nondet_u64();
        uint8_t guard[8];
        for (unsigned b = 0; b < slack; b++)
                guard[b] = out[dsz + b];

        fn(msg, len, out);

        __CPROVER_assert(g_calls == fips_nblocks(t, len), "[C02][C08] number of compressed blocks = FIPS 180-4 padded length / block size");
        __CPROVER_assert(g_iv_ok, "[C02] first block starts from the FIPS initial hash value of this algorithm");
        __CPROVER_assert(family_ok(t, g_kernel_family), "[C02][C06] every block goes through a compression kernel of this algorithm");
        if (g_j < fips_nblocks(t, len))
                __CPROVER_assert(g_obs_set && g_obs == fips_pad_byte(t, msg, len, (uint64_t) g_j * blk + g_i),
                                 "[C02][C08] byte i of block j handed to the kernel = byte of the FIPS 180-4 padded message");
        /* digest = big-endian words of the final chaining value, truncated */
        const unsigned wb = (unsigned) fips_word(t);
        const unsigned q = nondet_unsigned();
        __CPROVER_assume(q < dsz);
        const uint64_t word = (wb == 4) ? ((const uint32_t *) g_final)[q / 4] : g_final[q / 8];
        __CPROVER_assert(out[q] == (uint8_t) (word >> (8 * (wb - 1 - (q % wb)))), "[C02] digest = big-endian final chaining value, truncated to the digest size");
        for (unsigned b = 0; b < slack; b++)
                __CPROVER_assert(out[dsz + b] == guard[b], "[C07] nothing is written past the digest");
        __CPROVER_assert(g_clear_calls >= 2, "[C13] message-block and chaining-value temporaries are cleared before return");
        __CPROVER_assert(imb_errno == 0, "[C14] error code zero on success");
        __CPROVER_assert(!(len == blk - 8 && g_j == 1), "[VACUITY] the length that just overflows into a second block is reachable");
}

#ifdef SHA_UNBOUNDED
static void
check_sha_any_len(const int t, sha_fn fn)
{
        const uint64_t blk = fips_blk(t);
        const uint64_t len = nondet_u64();
        uint8_t *msg, *out;
        const uint64_t dsz = fips_digest_bytes(t);

        __CPROVER_assume(len <= ((uint64_t) 1 << 32));   /* only keeps the harness allocation finite */
        msg = malloc(len);
        out = malloc(dsz + 8);
        __CPROVER_assume(out != NULL && (msg != NULL || len == 0));
        g_type = t; g_calls = 0; g_obs_set = 0; g_ptr_ok = 1; g_fam_ok = 1;
        g_blk = blk; g_full = len / blk; g_msgp = msg;
        g_j = nondet_u64(); g_i = nondet_unsigned();
        __CPROVER_assume(g_i < blk);
        for (unsigned w = 0; w < 8; w++)
                g_final[w] = nondet_u64();
        const uint8_t guard = out[dsz];

        fn(msg, len, out);

        __CPROVER_assert(g_calls == fips_nblocks(t, len), "[C02][C08] ANY length: number of compressed blocks = FIPS 180-4 padded length / block size");
        __CPROVER_assert(g_ptr_ok, "[C02] ANY length: whole block k is compressed straight from message offset k * block size, in order");
        __CPROVER_assert(g_fam_ok, "[C02][C06] ANY length: every block goes through a compression kernel of this algorithm");
        if (g_j >= g_full && g_j < fips_nblocks(t, len))
                __CPROVER_assert(g_obs_set && g_obs == fips_pad_byte(t, msg, len, g_j * blk + g_i),
                                 "[C02][C08] ANY length: byte i of a padding block = byte of the FIPS 180-4 padded message (tail | 0x80 | zeros | big-endian bit length)");
        const unsigned wb = (unsigned) fips_word(t);
        const unsigned q = nondet_unsigned();
        __CPROVER_assume(q < dsz);
        const uint64_t word = (wb == 4) ? ((const uint32_t *) g_final)[q / 4] : g_final[q / 8];
        __CPROVER_assert(out[q] == (uint8_t) (word >> (8 * (wb - 1 - (q % wb)))), "[C02] ANY length: digest = big-endian final chaining value, truncated to the digest size");
        __CPROVER_assert(out[dsz] == guard, "[C07] nothing is written past the digest");
        __CPROVER_assert(!(len == 1000 * blk + blk - 3 && g_j == 1001), "[VACUITY] 1000-block message with a two-block padding reachable");
}
#define check_sha check_sha_any_len
#endif

static void
check_sha_null(sha_fn fn)
{
        uint8_t buf[128];
        const uint64_t len = nondet_u64();

        g_calls = 0;
        if (nondet_bool()) {
                __CPROVER_assume(len != 0 && len <= 64);
                fn(NULL, len, buf);
                __CPROVER_assert(g_calls == 0 && imb_errno == IMB_ERR_NULL_SRC, "[C12] direct SHA: NULL message with non-zero length refused (IMB_ERR_NULL_SRC), nothing processed");
        } else {
                __CPROVER_assume(len <= 64);
                fn(buf, len, NULL);
                __CPROVER_assert(g_calls == 0 && imb_errno == IMB_ERR_NULL_AUTH, "[C12] direct SHA: NULL digest refused (IMB_ERR_NULL_AUTH), nothing processed");
        }
}

/* files that implement only some algorithms are built with -DONLY_TYPES: each unit names the
 * one entry it uses, the others are compiled out by the preprocessor guards below */
#if !defined(ONLY_TYPES) || defined(HAVE_1)
void h_sha1(void) { check_sha(1, CAT(sha1_, SFX)); }
#endif
#if !defined(ONLY_TYPES) || defined(HAVE_224)
void h_sha224(void) { check_sha(224, CAT(sha224_, SFX)); }
#endif
#if !defined(ONLY_TYPES) || defined(HAVE_256)
void h_sha256(void) { check_sha(256, CAT(sha256_, SFX)); }
#endif
#if !defined(ONLY_TYPES) || defined(HAVE_384)
void h_sha384(void) { check_sha(384, CAT(sha384_, SFX)); }
#endif
#if !defined(ONLY_TYPES) || defined(HAVE_512)
void h_sha512(void) { check_sha(512, CAT(sha512_, SFX)); }
#endif
#ifndef ONLY_TYPES
void h_sha_null(void)
{
        const unsigned w = nondet_unsigned();
        check_sha_null(w == 0 ? CAT(sha1_, SFX) : w == 1 ? CAT(sha224_, SFX) : w == 2 ? CAT(sha256_, SFX) : w == 3 ? CAT(sha384_, SFX) : CAT(sha512_, SFX));
}
#endif
