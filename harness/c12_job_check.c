/*
 * C12 (and C06 pairing layer): the REAL is_job_invalid()/is_job_invalid_light()
 * from lib/include/mb_mgr_job_check.h against the constraint catalogue in
 * spec/job_constraints.h.  Nothing of the checker is copied: the header is
 * included as is; the contract lives in this file (attached with
 * --enforce-contract is_job_invalid/contract_is_job_invalid).
 */
#include "cprover_shim.h"
#include <stdint.h>
#include <stddef.h>
#include <stdlib.h>
#include <string.h>
#include "intel-ipsec-mb.h"
#include "x86_64/error.c" /* real imb_errno, imb_set_errno's global, imb_get_strerror */
#include "include/mb_mgr_job_check.h"
#include "job_constraints.h"

#ifndef SGL_MAX_SEGS
#define SGL_MAX_SEGS 2
#endif

/* ---- view of the memory behind the descriptor's pointers (spec side) ---- */
static inline int
sgl_applies(const IMB_JOB *j, const IMB_CIPHER_MODE cm)
{
        return (cm == IMB_CIPHER_GCM_SGL || cm == IMB_CIPHER_CHACHA20_POLY1305_SGL) &&
               j->sgl_state == IMB_SGL_ALL;
}

static inline struct jc_view
mk_view(const IMB_JOB *j, const IMB_CIPHER_MODE cm, const IMB_HASH_ALG ha,
        const IMB_CIPHER_DIRECTION dir, const uint64_t klen)
{
        struct jc_view v;

        v.job = j;
        v.cm = cm;
        v.ha = ha;
        v.dir = dir;
        v.klen = klen;
        v.des3_key_has_null = 0;
        v.pon_xgem_hdr = 0;
        v.sgl_seg_null_in = 0;
        v.sgl_seg_null_out = 0;
        v.sgl_total_len = 0;
        if (cm == IMB_CIPHER_DES3 && (dir == IMB_DIR_ENCRYPT || dir == IMB_DIR_DECRYPT)) {
                const void *const *ks =
                        (const void *const *) (dir == IMB_DIR_ENCRYPT ? j->enc_keys : j->dec_keys);
                if (ks != NULL)
                        v.des3_key_has_null = (ks[0] == NULL || ks[1] == NULL || ks[2] == NULL);
        }
        if (cm == IMB_CIPHER_PON_AES_CNTR && j->src != NULL && j->dst != NULL &&
            j->msg_len_to_cipher_in_bytes >= 4) {
                const uint8_t *p = j->src + j->hash_start_src_offset_in_bytes;
                uint64_t h = 0;
                /* little-endian load of the 8 header bytes, as the library does on x86 */
                for (int b = 7; b >= 0; b--)
                        h = (h << 8) | p[b];
                v.pon_xgem_hdr = h;
        }
        if (sgl_applies(j, cm) && j->sgl_io_segs != NULL) {
                for (uint64_t i = 0; i < SGL_MAX_SEGS; i++) {
                        if (i >= j->num_sgl_io_segs)
                                break;
                        const struct IMB_SGL_IOV *s = &j->sgl_io_segs[i];
                        /* the checker reports the first offending segment; any-order set here */
                        if (s->len != 0 && s->in == NULL)
                                v.sgl_seg_null_in = 1;
                        if (s->len != 0 && s->out == NULL)
                                v.sgl_seg_null_out = 1;
                        v.sgl_total_len += s->len;
                }
        }
        return v;
}

/* the checker stops at the first bad segment: NULL-in of a later segment may not be
 * reached when an earlier segment already failed - handled by set semantics. */

/* one evaluation of the catalogue: error set, bit 61 = "some row fired" */
#define SPEC_ANY (1ULL << 61)
static inline errset_t
spec_eval(const IMB_JOB *j, const IMB_CIPHER_MODE cm, const IMB_HASH_ALG ha,
          const IMB_CIPHER_DIRECTION dir, const uint64_t klen)
{
        struct jc_view v = mk_view(j, cm, ha, dir, klen);
        errset_t es = 0;
        const int any = spec_job_invalid(&v, &es);

        return (es & ~SPEC_ANY) | (any ? SPEC_ANY : 0);
}

/* ghost: the key length as the entry points hold it (IMB_JOB.key_len_in_bytes is 64 bits wide;
 * the job API passes that field, the cipher-burst API passes its own key_size argument) */
uint64_t g_kl64;

/* ghost: catalogue verdict on the pre-state (bound by a requires clause; the
 * descriptor is outside the assigns clause, so it is also the post-state verdict) */
errset_t g_spec;

/* memory the checker is entitled to read behind the descriptor */
#define PON_SRC_ROOM 64
static inline int
pon_hdr_in_room(const IMB_JOB *j)
{
        return j->hash_start_src_offset_in_bytes <= PON_SRC_ROOM - 8;
}

/* ---------------- contract of the full checker ---------------- */
int
contract_is_job_invalid(IMB_MGR *state, const IMB_JOB *job, const IMB_CIPHER_MODE cipher_mode,
                        const IMB_HASH_ALG hash_alg, const IMB_CIPHER_DIRECTION cipher_direction,
                        const uint64_t key_len_in_bytes)
        /* clang-format off */
__CPROVER_requires(__CPROVER_is_fresh(state, sizeof(*state)))
__CPROVER_requires(__CPROVER_is_fresh(job, sizeof(*job)))
/* the entry points pass the descriptor's own selector fields */
__CPROVER_requires(job->hash_alg == hash_alg)
/* 3DES: key pointer, when present, is an array of three pointers */
__CPROVER_requires(cipher_mode == IMB_CIPHER_DES3 && cipher_direction == IMB_DIR_ENCRYPT ?
                   (job->enc_keys == NULL || __CPROVER_is_fresh(job->enc_keys, 3 * sizeof(void *))) : 1)
__CPROVER_requires(cipher_mode == IMB_CIPHER_DES3 && cipher_direction != IMB_DIR_ENCRYPT ?
                   (job->dec_keys == NULL || __CPROVER_is_fresh(job->dec_keys, 3 * sizeof(void *))) : 1)
/* PON: src, when present, covers the XGEM header at the hash offset */
__CPROVER_requires(cipher_mode == IMB_CIPHER_PON_AES_CNTR ?
                   (job->src == NULL || (__CPROVER_is_fresh(job->src, PON_SRC_ROOM) && pon_hdr_in_room(job))) : 1)
/* SGL_ALL: segment array, when present, has num_sgl_io_segs entries */
__CPROVER_requires(sgl_applies(job, cipher_mode) ?
                   (job->num_sgl_io_segs <= SGL_MAX_SEGS &&
                    (job->sgl_io_segs == NULL ? job->num_sgl_io_segs == 0 :
                     __CPROVER_is_fresh(job->sgl_io_segs, SGL_MAX_SEGS * sizeof(struct IMB_SGL_IOV)))) : 1)
/* the argument is what the callers' implicit conversion of that 64-bit value yields */
__CPROVER_requires(key_len_in_bytes == (__typeof__(key_len_in_bytes)) g_kl64)
__CPROVER_requires(g_spec == spec_eval(job, cipher_mode, hash_alg, cipher_direction, g_kl64))
__CPROVER_assigns(state->imb_errno, imb_errno)
/* soundness: a job violating a documented constraint is rejected */
__CPROVER_ensures((g_spec & SPEC_ANY) ==> __CPROVER_return_value != 0)
/* completeness: a job satisfying every documented constraint is accepted */
__CPROVER_ensures(!(g_spec & SPEC_ANY) ==> __CPROVER_return_value == 0)
/* the manager's error code names a violated constraint */
__CPROVER_ensures(__CPROVER_return_value != 0 ==> (es_of(state->imb_errno) & g_spec & ~SPEC_ANY) != 0)
/* ... and the process-wide mirror agrees */
__CPROVER_ensures(__CPROVER_return_value != 0 ==> imb_errno == state->imb_errno)
/* accepted: error state untouched */
__CPROVER_ensures(__CPROVER_return_value == 0 ==>
                  state->imb_errno == __CPROVER_old(state->imb_errno) &&
                  imb_errno == __CPROVER_old(imb_errno))
        /* clang-format on */
        ;

/* ---------------- light checker (imb_set_session template check) ---------------- */
static inline int
spec_light_invalid(const IMB_CIPHER_MODE cm, const IMB_HASH_ALG ha, const IMB_CIPHER_DIRECTION dir,
                   const uint64_t klen, errset_t *es_out)
{
        /* selector-only rows of the catalogue: direction, known mode/alg, pairing, key size.
         * PON key size depends on the message length, which a template does not have. */
        errset_t es = 0;
        int any = 0;
        const IMB_JOB dummy = { 0 }; /* len 0: PON key/iv rows silent */

        JC_ROW(dir != IMB_DIR_ENCRYPT && dir != IMB_DIR_DECRYPT && cm != IMB_CIPHER_NULL,
               IMB_ERR_JOB_CIPH_DIR);
        JC_ROW(!jc_cipher_known(cm), IMB_ERR_CIPH_MODE);
        JC_ROW(!jc_hash_known(ha), IMB_ERR_HASH_ALGO);
        JC_ROW(jc_cipher_required_hash(cm) != 0 && ha != jc_cipher_required_hash(cm),
               IMB_ERR_HASH_ALGO);
        JC_ROW(jc_hash_required_cipher(ha) != 0 && cm != jc_hash_required_cipher(ha),
               IMB_ERR_CIPH_MODE);
        JC_ROW(!jc_key_len_ok(cm, klen, &dummy), IMB_ERR_JOB_KEY_LEN);
        *es_out = es;
        return any;
}

static inline int
spec_light_inv(const IMB_CIPHER_MODE cm, const IMB_HASH_ALG ha, const IMB_CIPHER_DIRECTION dir,
               const uint64_t klen)
{
        errset_t es;
        return spec_light_invalid(cm, ha, dir, klen, &es);
}

static inline errset_t
spec_light_errs(const IMB_CIPHER_MODE cm, const IMB_HASH_ALG ha, const IMB_CIPHER_DIRECTION dir,
                const uint64_t klen)
{
        errset_t es = 0;
        (void) spec_light_invalid(cm, ha, dir, klen, &es);
        return es;
}

int
contract_is_job_invalid_light(IMB_MGR *state, const IMB_CIPHER_MODE cipher_mode,
                              const IMB_HASH_ALG hash_alg,
                              const IMB_CIPHER_DIRECTION cipher_direction,
                              const uint64_t key_len_in_bytes)
        /* clang-format off */
__CPROVER_requires(__CPROVER_is_fresh(state, sizeof(*state)))
__CPROVER_requires(key_len_in_bytes == (__typeof__(key_len_in_bytes)) g_kl64)
__CPROVER_assigns(state->imb_errno, imb_errno)
__CPROVER_ensures(spec_light_inv(cipher_mode, hash_alg, cipher_direction, g_kl64) ==>
                  __CPROVER_return_value != 0)
__CPROVER_ensures(!spec_light_inv(cipher_mode, hash_alg, cipher_direction, g_kl64) ==>
                  __CPROVER_return_value == 0)
__CPROVER_ensures(__CPROVER_return_value != 0 ==>
                  (es_of(state->imb_errno) &
                   spec_light_errs(cipher_mode, hash_alg, cipher_direction, g_kl64)) != 0)
__CPROVER_ensures(__CPROVER_return_value == 0 ==>
                  state->imb_errno == __CPROVER_old(state->imb_errno))
        /* clang-format on */
        ;

#ifndef NATIVE_REPLAY
/* ---------------- harnesses ---------------- */
IMB_MGR *nondet_mgr(void);
const IMB_JOB *nondet_job(void);
int nondet_int(void);
uint64_t nondet_u64(void);

int g_ret; /* observable for the replay extractor */

void
h_is_job_invalid(void)
{
        IMB_MGR *state = nondet_mgr();
        const IMB_JOB *job = nondet_job();
        const IMB_CIPHER_MODE cm = (IMB_CIPHER_MODE) nondet_int();
        const IMB_HASH_ALG ha = (IMB_HASH_ALG) nondet_int();
        const IMB_CIPHER_DIRECTION dir = (IMB_CIPHER_DIRECTION) nondet_int();
        const uint64_t kl = nondet_u64();

        g_kl64 = kl;
        g_spec = nondet_u64(); /* statics are zero-initialised: the ghost verdict must start unconstrained */
        g_ret = is_job_invalid(state, job, cm, ha, dir, kl); /* implicit conversion as in the callers */
        /* vacuity guards: both outcomes must be reachable under the preconditions */
        ;
        ;
}

/* C06: the dedicated AEAD / combined-mode pairings are accepted only with each other */
void
h_pairing(void)
{
        IMB_MGR *state = malloc(sizeof(*state));
        IMB_JOB *job = malloc(sizeof(*job));

        __CPROVER_assume(state != NULL && job != NULL);
        __CPROVER_assume(job->sgl_state != IMB_SGL_ALL || job->num_sgl_io_segs <= 2);
        const int full = is_job_invalid(state, job, job->cipher_mode, job->hash_alg,
                                        job->cipher_direction, job->key_len_in_bytes);
        const int light = is_job_invalid_light(state, job->cipher_mode, job->hash_alg,
                                               job->cipher_direction, job->key_len_in_bytes);
        const IMB_HASH_ALG rh = jc_cipher_required_hash(job->cipher_mode);
        const IMB_CIPHER_MODE rc = jc_hash_required_cipher(job->hash_alg);

        __CPROVER_assert(full != 0 || rh == 0 || job->hash_alg == rh,
                         "[C06] accepted job: AEAD cipher mode comes only with its own hash");
        __CPROVER_assert(full != 0 || rc == 0 || job->cipher_mode == rc,
                         "[C06] accepted job: AEAD hash comes only with its own cipher mode");
        __CPROVER_assert(light != 0 || rh == 0 || job->hash_alg == rh,
                         "[C06] accepted session template: AEAD cipher mode comes only with its own hash");
        __CPROVER_assert(light != 0 || rc == 0 || job->cipher_mode == rc,
                         "[C06] accepted session template: AEAD hash comes only with its own cipher mode");
        __CPROVER_assert(full != 0 || light == 0,
                         "[C06] a job the full check accepts is accepted as a session template");
        __CPROVER_assert(!(full == 0 && job->cipher_mode == IMB_CIPHER_SNOW_V_AEAD),
                         "[VACUITY] an accepted SNOW-V-AEAD job exists");
}

void
h_is_job_invalid_light(void)
{
        IMB_MGR *state = nondet_mgr();
        const IMB_CIPHER_MODE cm = (IMB_CIPHER_MODE) nondet_int();
        const IMB_HASH_ALG ha = (IMB_HASH_ALG) nondet_int();
        const IMB_CIPHER_DIRECTION dir = (IMB_CIPHER_DIRECTION) nondet_int();
        const uint64_t kl = nondet_u64();

        g_kl64 = kl;
        g_ret = is_job_invalid_light(state, cm, ha, dir, kl);
}
#endif /* !NATIVE_REPLAY */
