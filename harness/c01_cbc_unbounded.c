/*
 * C01: DES-CBC / 3DES-CBC drivers of the REAL lib/x86_64/des_basic.c for messages of ANY length
 * (no unwinding: the block loop of each function is closed by a loop contract generated per run,
 * vlib/loopgen.py).  The block function enc_dec_1 (proved equal to FIPS 46-3 by unit
 * c01_des_block) is replaced by a checking contract model: it returns an arbitrary block and
 * checks, for a ghost block index w, that the call(s) made for block w are the ones FIPS 81 CBC
 * (and the E-D-E / D-E-D composition of TDEA, SP 800-67) prescribe:
 *   DES  enc: E_K(P_w xor C_{w-1})                     3DES enc: E_K3(D_K2(E_K1(P_w xor C_{w-1})))
 *   DES  dec: D_K(C_w) xor C_{w-1}                     3DES dec: D_K1(E_K2(D_K3(C_w))) xor C_{w-1}
 * with C_{-1} = IV, P/C taken from the buffer contents ON ENTRY (in place or not).  Conclusions,
 * for every size >= 0 and every w: block w of the output is exactly that value, the block stored
 * at w-1 is the C_{w-1} that was used (encrypt), words at and beyond size/8 are not written, the
 * number of block-function calls is size/8 (x3), the caller's IV is not modified.
 * CBC_FN selects the function: 0 des_enc, 1 des_dec, 2 des3_enc, 3 des3_dec.
 */
#include <stdlib.h>
#include <stdint.h>
#include <string.h>
#include "x86_64/des_basic.c"

uint64_t nondet_u64(void);
int nondet_int(void);
_Bool nondet_bool(void);

#ifndef CBC_FN
#define CBC_FN 0
#endif
#ifndef MAXBLK
#define MAXBLK (1u << 20)
#endif
#define IS3 (CBC_FN >= 2)
#define ISENC (CBC_FN == 0 || CBC_FN == 2)

/* ghost state (plain globals: they appear in the loop invariants) */
const uint64_t *g_inp;
uint64_t *g_outp;
const uint64_t *g_k1, *g_k2, *g_k3;
uint64_t g_iv0, g_w, g_w2, g_Ow, g_Owm1, g_O2;
uint64_t g_calls, g_prev, g_last, g_expect, g_expect_prev, g_dw;
int g_ok, g_have;

uint64_t
contract_enc_dec_1(const uint64_t data, const uint64_t *ks, const int enc)
{
        const uint64_t out = nondet_u64();
        const uint64_t n = IS3 ? g_calls / 3 : g_calls;        /* block this call belongs to */
        const unsigned ph = IS3 ? (unsigned) (g_calls % 3) : 0; /* stage inside the block */

        /* key and direction of every call */
        if (!IS3) {
                if (ks != g_k1 || enc != (ISENC ? 1 : 0))
                        g_ok = 0;
        } else if (ISENC) {
                if (ks != (ph == 0 ? g_k1 : ph == 1 ? g_k2 : g_k3) || enc != (ph == 1 ? 0 : 1))
                        g_ok = 0;
        } else {
                if (ks != (ph == 0 ? g_k3 : ph == 1 ? g_k2 : g_k1) || enc != (ph == 1 ? 1 : 0))
                        g_ok = 0;
        }
        /* data flow */
        if (ph != 0 && data != g_last)
                g_ok = 0;       /* stage k+1 of TDEA consumes stage k */
        if (ph == 0 && n == g_w) {
                if (ISENC ? (data != (g_Ow ^ g_prev)) : (data != g_Ow))
                        g_ok = 0;       /* block w enters as P_w xor C_{w-1} (encrypt) / C_w (decrypt) */
        }
        g_last = out;
        if (ph == (IS3 ? 2u : 0u)) {    /* last stage of the block */
                if (ISENC) {
                        if (n + 1 == g_w)
                                g_expect_prev = out;
                        if (n == g_w) {
                                g_expect = out;
                                g_have = 1;
                        }
                        g_prev = out;   /* becomes C_n, the chaining value */
                } else if (n == g_w) {
                        g_expect = out ^ (g_w == 0 ? g_iv0 : g_Owm1);
                        g_have = 1;
                }
        }
        g_calls++;
        return out;
}

static uint64_t g_ks1[16], g_ks2[16], g_ks3[16];

void
h_cbc_unbounded(void)
{
        const int size = nondet_int();
        const int inplace = nondet_bool();
        uint64_t ivv = nondet_u64();

        __CPROVER_assume(size >= 0 && (unsigned) size <= 8 * MAXBLK + 7);
        /* buffers of symbolic size: kept as (unflattened) arrays by the verifier, whatever the length */
        const uint64_t words = (uint64_t) size / 8 + 2;
        uint64_t *bufa = malloc(words * 8), *bufb = malloc(words * 8);
        __CPROVER_assume(bufa != NULL && bufb != NULL);
        g_inp = bufa;
        g_outp = inplace ? bufa : bufb;
        g_k1 = g_ks1; g_k2 = g_ks2; g_k3 = g_ks3;
        g_iv0 = ivv;
        g_w = nondet_u64(); g_w2 = nondet_u64();
        __CPROVER_assume(g_w < words - 1 && g_w2 < words);
        g_Ow = g_inp[g_w];
        g_Owm1 = g_w >= 1 ? g_inp[g_w - 1] : 0;
        g_O2 = g_outp[g_w2];
        g_calls = 0; g_prev = ivv; g_last = 0; g_expect = 0; g_expect_prev = 0; g_ok = 1; g_have = 0;

#if CBC_FN == 0
        des_enc_cbc_basic(g_inp, g_outp, size, g_ks1, &ivv);
#elif CBC_FN == 1
        des_dec_cbc_basic(g_inp, g_outp, size, g_ks1, &ivv);
#elif CBC_FN == 2
        des3_enc_cbc_basic(g_inp, g_outp, size, g_ks1, g_ks2, g_ks3, &ivv);
#else
        des3_dec_cbc_basic(g_inp, g_outp, size, g_ks1, g_ks2, g_ks3, &ivv);
#endif

        const uint64_t nb = (uint64_t) size / 8;
        __CPROVER_assert(g_ok, "[C01] CBC for ANY length: every block-function call uses the right key schedule and direction, TDEA stages are chained, block w enters as P_w xor C_{w-1} (encrypt) or C_w (decrypt)");
        __CPROVER_assert(g_calls == (IS3 ? 3 * nb : nb), "[C01] CBC for ANY length: one block operation (three for TDEA) per 8 bytes of message");
        if (g_w < nb) {
                __CPROVER_assert(g_have && g_outp[g_w] == g_expect, "[C01] CBC for ANY length: output block w = E_K(P_w xor C_{w-1}) / D_K(C_w) xor C_{w-1} on the entry contents, for every block index, in place or not");
                if (ISENC && g_w >= 1)
                        __CPROVER_assert(g_outp[g_w - 1] == g_expect_prev, "[C01] CBC encrypt: the chaining value of block w is the ciphertext block stored at w-1");
        }
        if (g_w2 >= nb)
                __CPROVER_assert(g_outp[g_w2] == g_O2, "[C01][C07] CBC for ANY length: nothing is written at or beyond size/8 blocks");
        __CPROVER_assert(ivv == g_iv0, "[C14] the caller's IV is not modified");
        __CPROVER_assert(!(size == 8 * 1000 + 5 && g_w == 999 && inplace), "[VACUITY] 1000-block in-place message reachable");
}
