/*
 * C10 (+C03, C07, C13): segmentation independence of ChaCha20-Poly1305 in the REAL
 * lib/x86_64/chacha20_poly1305.c (update / finalize of the SGL and direct APIs).
 * Representation invariant of chacha20_poly1305_context_data, with N = ciphertext bytes so far:
 *     remain_ct_bytes == N mod 16,  poly_scratch[0 .. N mod 16) == the last N mod 16 ciphertext bytes,
 *     hash_len == N,  everything before has been handed to Poly1305 in 16-byte multiples.
 * One update call with any segment length 0..SEG_MAX (48: every residue, < fill, = fill,
 * straddling, several blocks; the C code has no loop over the length, the bound only keeps the
 * buffers of the harness fixed-size) preserves it, and the bytes it hands to Poly1305 are exactly the next
 * floor((r + len) / 16) * 16 bytes of   (pending tail) ++ (ciphertext of this segment), in order
 * (ghost position p, so all positions), each Poly update a multiple of 16 bytes, scratch copies
 * <= 16 bytes inside the scratch pad.  By induction over calls the Poly1305 input is
 * AAD ++ pad ++ CT ++ pad ++ lengths for EVERY partition of the message.
 * finalize hashes the pending tail, then (aad_len, N) little endian, then completes into the tag
 * and wipes the key material.  ChaCha20 / Poly1305 kernels are NASM: logging models.
 */
#include <stdlib.h>
#include <stdint.h>
#include <string.h>
#include "x86_64/chacha20_poly1305.c"

uint64_t nondet_u64(void);
unsigned nondet_unsigned(void);
_Bool nondet_bool(void);
#ifndef SEG_MAX
#define SEG_MAX 48 /* segment length bound of this unit (fixed-size buffers keep the query small) */
#endif

/* ---- ghost log of what Poly1305 is given ---- */
static uint64_t g_cum;          /* bytes handed to Poly1305 in this call */
static uint64_t g_p;            /* watched position in that stream */
static int g_obs_set, g_all16 = 1, g_updates, g_last_len_ok = 1;
static uint8_t g_obs;
static const void *g_hash_ptr, *g_key_ptr;
static int g_ptr_ok = 1;
static int g_finalizing;        /* finalize may hand a short tail and the 16-byte length block */
static uint64_t g_last_words[2];
static unsigned g_last_seen;

static uint64_t g_T = ~(uint64_t) 0;   /* h_complete: number of data bytes (pending tail + last segment) */
static int g_short_seen, g_short_then_data;
static void
poly_model(const void *msg, const uint64_t len, void *hash, const void *key)
{
        if (hash != g_hash_ptr || key != g_key_ptr)
                g_ptr_ok = 0;
        if (g_short_seen && g_cum < g_T)
                g_short_then_data = 1;  /* Poly1305 pads a short update with zeros: data after it would be mis-framed */
        if (len & 15) {
                g_all16 = 0;
                g_short_seen = 1;
        }
        if (g_p >= g_cum && g_p - g_cum < len) {
                g_obs = ((const uint8_t *) msg)[g_p - g_cum];
                g_obs_set = 1;
        }
        if (g_finalizing && len == 16) {
                memcpy(g_last_words, msg, 16);
                g_last_seen++;
        }
        g_cum += len;
        g_updates++;
}
void poly1305_aead_update_scalar(const void *m, const uint64_t l, void *h, const void *k) { poly_model(m, l, h, k); }
void poly1305_aead_update_avx512(const void *m, const uint64_t l, void *h, const void *k) { poly_model(m, l, h, k); }
void poly1305_aead_update_fma_avx512(const void *m, const uint64_t l, void *h, const void *k) { poly_model(m, l, h, k); }
void poly1305_aead_update_fma_avx2(const void *m, const uint64_t l, void *h, const void *k) { poly_model(m, l, h, k); }
static unsigned g_complete_calls;
static uint8_t g_tag_val[16];
static void complete_model(const void *h, const void *k, void *tag) { if (h != g_hash_ptr || k != g_key_ptr) g_ptr_ok = 0; g_complete_calls++; memcpy(tag, g_tag_val, 16); }
void poly1305_aead_complete_scalar(const void *h, const void *k, void *t) { complete_model(h, k, t); }
void poly1305_aead_complete_avx512(const void *h, const void *k, void *t) { complete_model(h, k, t); }
void poly1305_aead_complete_fma_avx512(const void *h, const void *k, void *t) { complete_model(h, k, t); }
void poly1305_aead_complete_fma_avx2(const void *h, const void *k, void *t) { complete_model(h, k, t); }

/* scratch-pad copies */
static int g_copy_ok = 1;
static void copy_model(void *dst, const void *src, const size_t n)
{
        if (n > 16) {
                g_copy_ok = 0;
                return;
        }
        for (unsigned i = 0; i < 16; i++)       /* byte loop: far cheaper for the solver than memcpy with a symbolic size */
                if (i < n)
                        ((uint8_t *) dst)[i] = ((const uint8_t *) src)[i];
}
void memcpy_fn_sse_16(void *d, const void *s, const size_t n) { copy_model(d, s, n); }
void memcpy_fn_avx_16(void *d, const void *s, const size_t n) { copy_model(d, s, n); }

/* ChaCha20 with key-stream carry: writes `len` arbitrary bytes to dst, nothing else of interest here */
static unsigned g_cipher_calls;
static uint64_t g_cipher_len;
static void cipher_model(const void *src, void *dst, const uint64_t len, const void *key, struct chacha20_poly1305_context_data *ctx)
{
        (void) src; (void) key; (void) ctx;
        g_cipher_calls++;
        g_cipher_len = len;
        for (unsigned i = 0; i < SEG_MAX; i++)
                if (i < len)
                        ((uint8_t *) dst)[i] = (uint8_t) nondet_unsigned();
}
void chacha20_enc_dec_ks_sse(const void *s, void *d, const uint64_t l, const void *k, struct chacha20_poly1305_context_data *c) { cipher_model(s, d, l, k, c); }
void chacha20_enc_dec_ks_avx2(const void *s, void *d, const uint64_t l, const void *k, struct chacha20_poly1305_context_data *c) { cipher_model(s, d, l, k, c); }
void chacha20_enc_dec_ks_avx512(const void *s, void *d, const uint64_t l, const void *k, struct chacha20_poly1305_context_data *c) { cipher_model(s, d, l, k, c); }
static unsigned g_clear;
void force_memset_zero(void *p, const uint64_t n) { g_clear++; memset(p, 0, n); }
void force_memset_zero_vol(volatile void *p, const uint64_t n) { g_clear++; memset((void *) p, 0, n); }

static IMB_ARCH
any_arch(void)
{
        const unsigned a = nondet_unsigned();
        return a == 0 ? IMB_ARCH_SSE : a == 1 ? IMB_ARCH_AVX2 : IMB_ARCH_AVX512;
}

void
h_update(void)
{
        struct chacha20_poly1305_context_data *ctx = malloc(sizeof(*ctx));
        const uint64_t len = nondet_u64();
        const IMB_CIPHER_DIRECTION dir = nondet_bool() ? IMB_DIR_ENCRYPT : IMB_DIR_DECRYPT;
        const int inplace = nondet_bool();
        uint8_t key[32], tail[16];

        __CPROVER_assume(ctx != NULL && len <= SEG_MAX);
        uint8_t srcbuf[SEG_MAX], dstbuf[SEG_MAX];
        for (unsigned i = 0; i < SEG_MAX; i++)
                srcbuf[i] = (uint8_t) nondet_unsigned();
        uint8_t *src = srcbuf, *dst = inplace ? srcbuf : dstbuf;
        /* representation invariant on entry */
        g_p = nondet_u64();
        const uint64_t r = ctx->remain_ct_bytes, n0 = ctx->hash_len;
        __CPROVER_assume(r < 16 && r == (n0 & 15) && n0 <= IMB_CHACHA20_POLY1305_MAX_LEN);
        __CPROVER_assume(g_p < 16 + SEG_MAX);
        for (unsigned i = 0; i < 16; i++)
                tail[i] = ctx->poly_scratch[i];
        g_hash_ptr = ctx->hash;
        g_key_ptr = ctx->poly_key;

        /* decrypt: the ciphertext is the source as it is on entry (in place it is overwritten by the
         * plaintext afterwards - which is why it has to be hashed first); watch two of its bytes */
        const uint64_t H = (r + len) & ~(uint64_t) 15;            /* bytes that become hashable */
        const unsigned t = nondet_unsigned();
        __CPROVER_assume(t < 16);
        const uint8_t src_p = (g_p >= r && g_p - r < len) ? src[g_p - r] : 0;
        const uint8_t src_t = (H + t >= r && H + t - r < len) ? src[H + t - r] : 0;

        update_chacha20_poly1305_direct(key, ctx, dst, src, len, dir, any_arch(), nondet_unsigned(), nondet_unsigned());

        /* encrypt: the ciphertext is what the cipher left in the destination */
#define CT_AT(pos, snap) ((dir == IMB_DIR_ENCRYPT) ? dst[pos] : (snap))
        __CPROVER_assert(g_cum == H, "[C10] update hands Poly1305 exactly the 16-byte multiples that became complete: floor((pending + len)/16)*16 bytes");
        __CPROVER_assert(g_all16, "[C10] every Poly1305 update issued by a non-final segment is a multiple of 16 bytes");
        if (g_p < H)
                __CPROVER_assert(g_obs_set && g_obs == (g_p < r ? tail[g_p] : CT_AT(g_p - r, src_p)),
                                 "[C10][C07] the bytes hashed are (pending tail) ++ (this segment's ciphertext: the SOURCE bytes on decrypt, never the destination buffer), in order, whatever the segment length, in place or out of place");
        __CPROVER_assert(ctx->remain_ct_bytes == ((r + len) & 15) && ctx->hash_len == n0 + len, "[C10] invariant: remain_ct_bytes = N mod 16, hash_len = N");
        if (t < ctx->remain_ct_bytes)
                __CPROVER_assert(ctx->poly_scratch[t] == (H + t < r ? tail[H + t] : CT_AT(H + t - r, src_t)), "[C10][C07] invariant: scratch pad holds the ciphertext bytes not yet hashed (taken from the source on decrypt, in place or out of place)");
        __CPROVER_assert(g_copy_ok, "[C07] scratch-pad copies are at most 16 bytes");
        __CPROVER_assert(g_ptr_ok, "[C03] Poly1305 runs on the context's accumulator with the context's one-time key");
        __CPROVER_assert(g_cipher_calls == 1 && g_cipher_len == len, "[C03] the segment is ciphered once, over its whole length");
        __CPROVER_assert(!(r == 5 && len == 27 && g_p == 20), "[VACUITY] straddling segment reachable");
}

void
h_finalize(void)
{
        struct chacha20_poly1305_context_data *ctx = malloc(sizeof(*ctx));
        uint8_t tag[16 + 4], pre[16 + 4], tail[16];
        const uint64_t tag_len = nondet_u64();

        __CPROVER_assume(ctx != NULL && tag_len >= 1 && tag_len <= 16);
        const uint64_t r = ctx->remain_ct_bytes, n0 = ctx->hash_len, aad = ctx->aad_len;
        __CPROVER_assume(r < 16 && r == (n0 & 15));
        for (unsigned i = 0; i < 16; i++) { tail[i] = ctx->poly_scratch[i]; g_tag_val[i] = (uint8_t) nondet_unsigned(); }
        for (unsigned i = 0; i < 20; i++) pre[i] = tag[i] = (uint8_t) nondet_unsigned();
        g_p = nondet_u64();
        g_hash_ptr = ctx->hash;
        g_key_ptr = ctx->poly_key;
        g_finalizing = 1;

        finalize_chacha20_poly1305_direct(ctx, tag, tag_len, any_arch(), nondet_unsigned(), nondet_unsigned());

        __CPROVER_assert(g_cum == r + 16 && g_updates == (r ? 2 : 1), "[C10][C03] finalize hashes the pending tail (if any) and then one 16-byte length block");
        if (g_p < r)
                __CPROVER_assert(g_obs_set && g_obs == tail[g_p], "[C10] the pending tail bytes are hashed as they are");
        __CPROVER_assert(g_last_seen >= 1 && g_last_words[0] == aad && g_last_words[1] == n0, "[C03] length block = (AAD length, ciphertext length) as two little-endian 64-bit words (RFC 8439 2.8)");
        __CPROVER_assert(g_complete_calls == 1 && g_ptr_ok, "[C03] one Poly1305 completion on the context's accumulator and key");
        const unsigned q = nondet_unsigned();
        __CPROVER_assume(q < 20);
        __CPROVER_assert(tag[q] == (q < tag_len ? g_tag_val[q] : pre[q]), "[C03][C07] exactly tag_len bytes of the tag are written");
        unsigned nz = 0;
        for (unsigned i = 0; i < 64; i++) nz |= ctx->last_ks[i];
        for (unsigned i = 0; i < 32; i++) nz |= ctx->poly_key[i];
        __CPROVER_assert(nz == 0, "[C13] key stream remainder and Poly1305 key are wiped from the context");
        __CPROVER_assert(!(r == 7 && tag_len == 16), "[VACUITY] finalize with pending tail reachable");
}

/*
 * Job API, last segment WITH data (IMB_SGL_COMPLETE): complete_chacha20_poly1305().
 * With r pending bytes and a final segment of any length len, Poly1305 must see
 *     (pending tail) ++ (ciphertext of the segment)     r + len bytes, in order,
 * where only the LAST data update may be shorter than a multiple of 16 (Poly1305 zero-pads a short
 * update, RFC 8439 2.8 pads once, at the end), then the 16-byte length block (aad_len, N + len),
 * then one completion into the tag; key material wiped; status COMPLETED.
 */
void
h_complete(void)
{
        struct chacha20_poly1305_context_data *ctx = malloc(sizeof(*ctx));
        IMB_JOB *job = malloc(sizeof(*job));
        const uint64_t len = nondet_u64();
        const IMB_CIPHER_DIRECTION dir = nondet_bool() ? IMB_DIR_ENCRYPT : IMB_DIR_DECRYPT;
        const int inplace = nondet_bool();
        uint8_t key[32], tail[16], tag[16];
        const unsigned off = nondet_unsigned();

        __CPROVER_assume(ctx != NULL && job != NULL && len <= SEG_MAX && off <= 4);
        uint8_t srcbuf[SEG_MAX + 4], dstbuf[SEG_MAX + 4];
        for (unsigned i = 0; i < SEG_MAX + 4; i++)
                srcbuf[i] = (uint8_t) nondet_unsigned();
        uint8_t *src = srcbuf, *dst = inplace ? srcbuf + off : dstbuf;
        g_p = nondet_u64();
        const uint64_t r = ctx->remain_ct_bytes, n0 = ctx->hash_len, aad = ctx->aad_len;
        __CPROVER_assume(r < 16 && r == (n0 & 15) && n0 <= IMB_CHACHA20_POLY1305_MAX_LEN);
        __CPROVER_assume(g_p < 16 + SEG_MAX);
        for (unsigned i = 0; i < 16; i++) { tail[i] = ctx->poly_scratch[i]; g_tag_val[i] = (uint8_t) nondet_unsigned(); }
        g_hash_ptr = ctx->hash;
        g_key_ptr = ctx->poly_key;
        g_finalizing = 1;
        g_T = r + len;
        job->u.CHACHA20_POLY1305.ctx = ctx;
        job->src = src; job->dst = dst;
        job->cipher_start_src_offset_in_bytes = off; job->hash_start_src_offset_in_bytes = off;
        job->msg_len_to_cipher_in_bytes = len; job->msg_len_to_hash_in_bytes = len;
        job->cipher_direction = dir; job->enc_keys = key; job->auth_tag_output = tag;
        job->status = IMB_STATUS_BEING_PROCESSED;
        const uint8_t src_p = (g_p >= r && g_p - r < len) ? src[off + g_p - r] : 0;

        complete_chacha20_poly1305(job, any_arch(), nondet_unsigned());

        __CPROVER_assert(g_cum == r + len + 16, "[C10] the last segment's job hands Poly1305 the pending tail, the whole segment and one 16-byte length block - nothing more, nothing less");
        __CPROVER_assert(!g_short_then_data, "[C10] only the LAST data update may be shorter than a multiple of 16 bytes (Poly1305 zero-pads a short update): a short final segment is merged with the pending partial block, exactly as in the one-shot computation");
        if (g_p < r + len)
                __CPROVER_assert(g_obs_set && g_obs == (g_p < r ? tail[g_p] : (dir == IMB_DIR_ENCRYPT ? dst[g_p - r] : src_p)),
                                 "[C10] the bytes hashed by the last segment's job are (pending tail) ++ (its ciphertext), in order, for every split point");
        __CPROVER_assert(g_last_seen >= 1 && g_last_words[0] == aad && g_last_words[1] == n0 + len, "[C10][C03] length block = (AAD length, TOTAL ciphertext length over all segments)");
        __CPROVER_assert(g_complete_calls == 1 && g_ptr_ok, "[C03] one Poly1305 completion on the context's accumulator and key");
        __CPROVER_assert(g_cipher_calls == 1 && g_cipher_len == len, "[C03] the last segment is ciphered once, over its whole length");
        __CPROVER_assert(g_copy_ok, "[C07] scratch-pad copies are at most 16 bytes");
        __CPROVER_assert(job->status == IMB_STATUS_COMPLETED, "[C14] job completed");
        unsigned nz = 0;
        for (unsigned i = 0; i < 64; i++) nz |= ctx->last_ks[i];
        for (unsigned i = 0; i < 32; i++) nz |= ctx->poly_key[i];
        __CPROVER_assert(nz == 0, "[C13] key stream remainder and Poly1305 key are wiped from the context");
        __CPROVER_assert(!(r == 9 && len == 3 && g_p == 10), "[VACUITY] short final segment after a pending partial block reachable");
}
