/*
 * C02 / C04 / C13: the multi-buffer SHA manager written in C (lib/include/sha_mb_mgr.h) as
 * instantiated by the REAL lib/sse_t2/sha_ni_mb_sse.c (SHA-1, 2 lanes, SHA-NI digest layout)
 * and lib/sse_t1/sha_mb_sse.c (SHA-512 / SHA-384, 2 lanes, transposed digest layout), starting
 * from the REAL ooo_mgr_sha*_reset().
 * History explored (BOUNDED): submit job A, submit job B, then flush until empty; message
 * lengths 0..MB_MAXLEN each, hash start offsets 0..8 (MB_MAXLEN = block + 70: below / at / above every padding
 * threshold, whole blocks, different lengths in the two lanes); all message contents.
 * The multi-lane compression kernel is NASM: modelled - it consumes `nblocks` blocks from every
 * lane's data pointer, advances the pointers, and leaves a fresh arbitrary value in every
 * lane's digest column; for a ghost (lane-job, block, byte) it records what it was fed.
 * Obligations for EACH of the two jobs, whichever completes first:
 *   [C02] the blocks fed to the kernel for that job are the FIPS 180-4 padding of ITS message,
 *         the right number of them; the tag is the big-endian image of ITS lane's digest column
 *   [C04] nothing of the other job (message pointer, lane, digest column) enters its result;
 *         each job is handed back exactly once, with COMPLETED_AUTH added; jobs[] not mixed up
 *   [C13] the lane's extra_block is wiped whenever it held message bytes (length not a multiple of the block)
 *   [C05] after both are handed back the manager is empty again (all lanes free)
 */
#include <stdlib.h>
#include <stdint.h>
#include <string.h>
#include <stddef.h>
#include "x86_64/ooo_mgr_reset.c"
#include MB_FILE
#include "fips180.h"

unsigned nondet_unsigned(void);
uint64_t nondet_u64(void);
_Bool nondet_bool(void);
IMB_JOB nondet_job(void);

#ifndef MB_MAXLEN
#define MB_MAXLEN (MB_BLK + 70)
#endif
#define NJ 2

static uint8_t g_msg[NJ][MB_MAXLEN + 8];
static IMB_JOB g_job[NJ];
static uint8_t g_tag[NJ][64 + 8];
/* ghost: which job we watch, which block / byte of its padded message */
static unsigned g_w, g_j, g_i;
static unsigned g_blocks[NJ];    /* blocks fed to the kernel for each job so far */
static int g_obs_set;
static uint8_t g_obs;
static uint64_t g_col[NJ][8];    /* latest digest column the kernel left for the lane holding job k */
static MB_STATE *g_state;


/*
 * Functional contract of sha{1,256,512}_create_extra_blocks(state, blk, r, lane), written with
 * typed accesses.  Unit h_sha_xblk proves the REAL function equal to it on every byte of the
 * manager, for every lane index, every tail length r and every tail content; the manager unit
 * then runs with calls to the real function replaced by this contract (--replace-calls), the
 * modular step of contract-based verification.
 *   extra_block := tail bytes [0, r) | 0x80 | zeros | 64-bit big-endian bit length at the end of
 *   the last extra block (FIPS 180-4 5.1; SHA-384/512: upper 64 bits of the 128-bit field zero)
 *   data_ptr[lane] := extra_block,  lens[lane] := blk * extra_blocks,  extra_blocks := 0
 */
static void
contract_lane(MB_STATE *state, const uint64_t blk_size, const uint64_t r, const unsigned lane)
{
        const uint64_t xblk = blk_size * state->ldata[lane].extra_blocks;
        const IMB_JOB *job = state->ldata[lane].job_in_lane;
        const uint8_t *src = state->args.data_ptr[lane];
        const uint64_t bits = job->msg_len_to_hash_in_bytes * 8;

        /* precondition (checked at the call site): the lane still reads the job's own message.
         * It lets the tail be read through the job's source pointer, which is the same address. */
        __CPROVER_assert(__CPROVER_same_object(src, job->src), "[C04] when the padding block is built the lane's data pointer is inside its OWN job's message buffer");
        const uint8_t *base = job->src;
        const uint64_t at = (uint64_t) (src - base);

        for (uint64_t j = 0; j < sizeof(state->ldata[0].extra_block); j++) {
                uint8_t v = 0;

                if (j < MB_BLK && j < r)
                        v = base[at + j];
                else if (j == r)
                        v = 0x80;
                if (j + 8 >= xblk && j < xblk)
                        v = (uint8_t) (bits >> (8 * (xblk - 1 - j)));
                state->ldata[lane].extra_block[j] = v;
        }
        state->args.data_ptr[lane] = &state->ldata[lane].extra_block[0];
        state->lens[lane] = (uint16_t) xblk;
        state->ldata[lane].extra_blocks = 0;
}

/* the contract, lane by lane (constant lane index in each branch keeps the verifier's encoding small) */
void
contract_create_extra_blocks(MB_STATE *state, const uint64_t blk_size, const uint64_t r, const unsigned min_idx)
{
#define LANE(n) else if (min_idx == (n)) contract_lane(state, blk_size, r, (n));
        if (0) { }
        LANE(0) LANE(1)
#if MB_LANES > 2
        LANE(2) LANE(3)
#endif
#if MB_LANES > 4
        LANE(4) LANE(5) LANE(6) LANE(7)
#endif
#if MB_LANES > 8
        LANE(8) LANE(9) LANE(10) LANE(11) LANE(12) LANE(13) LANE(14) LANE(15)
#endif
        else    /* a lane the manager was not configured with: outside the contract */
                __CPROVER_assert(0, "[C04][C07] create_extra_blocks is only ever called for a lane the manager was reset with");
}

#ifdef MB_UNIT_XBLK
MB_STATE nondet_state(void);
static MB_STATE g_real, g_spec;
static uint8_t g_tail[MB_BLK];
static IMB_JOB g_tjob;

void
h_sha_xblk(void)
{
#ifdef XBLK_LANE
        const unsigned lane = XBLK_LANE;      /* one unit per lane: the proof of each lane is small, together they cover every lane */
#else
        const unsigned lane = nondet_unsigned();
#endif
        const uint64_t r = nondet_u64();
        const uint32_t xb = nondet_unsigned();
        const size_t k = nondet_u64();

        g_real = nondet_state();
        g_tjob = nondet_job();
        for (unsigned i = 0; i < MB_BLK; i++)
                g_tail[i] = (uint8_t) nondet_unsigned();
        /* preconditions, as established at the only call site (submit_flush_job_sha_*) */
        __CPROVER_assume(lane < sizeof(g_real.ldata) / sizeof(g_real.ldata[0]));
        __CPROVER_assume(r < MB_BLK);
        __CPROVER_assume(xb == 1 || xb == 2);
        __CPROVER_assume(r < MB_BLK - MB_PAD || xb == 2);
        g_real.ldata[lane].extra_blocks = xb;
        g_real.ldata[lane].job_in_lane = &g_tjob;
        g_real.args.data_ptr[lane] = g_tail;
        g_tjob.src = g_tail;    /* the lane reads its own job's message (asserted by the contract at the call site) */
        g_spec = g_real;
        const uint64_t len0 = g_tjob.msg_len_to_hash_in_bytes;

#define CASE(n) else if (lane == (n)) { MB_XBLK(&g_real, MB_BLK, r, (n)); contract_lane(&g_spec, MB_BLK, r, (n)); }
        if (0) { }
        CASE(0) CASE(1) CASE(2) CASE(3) CASE(4) CASE(5) CASE(6) CASE(7)
#if MB_STATE_LANES > 8
        CASE(8) CASE(9) CASE(10) CASE(11) CASE(12) CASE(13) CASE(14) CASE(15)
#endif
        else
                __CPROVER_assert(0, "[INFRA] lane case split covers every lane of the manager");

        /* real == contract on everything in the manager, by ghost indexes (lane L, byte j, word w) */
        const unsigned L = nondet_unsigned(), w = nondet_unsigned();
        const size_t j = k;
        __CPROVER_assume(L < sizeof(g_real.ldata) / sizeof(g_real.ldata[0]));
        __CPROVER_assume(j < sizeof(g_real.ldata[0].extra_block));
        __CPROVER_assume(w < sizeof(g_real.args.digest) / sizeof(g_real.args.digest[0]));
        __CPROVER_assert(g_real.ldata[L].extra_block[j] == g_spec.ldata[L].extra_block[j],
                         "[C02][C04] create_extra_blocks: the lane's extra_block = tail | 0x80 | zeros | big-endian bit length (FIPS 180-4 5.1), no other lane's block touched");
        __CPROVER_assert(g_real.lens[L] == g_spec.lens[L] && g_real.ldata[L].extra_blocks == g_spec.ldata[L].extra_blocks,
                         "[C02][C04] create_extra_blocks: lane length := size of the padding blocks, extra_blocks := 0, other lanes' lengths untouched");
        __CPROVER_assert(g_real.ldata[L].job_in_lane == g_spec.ldata[L].job_in_lane && g_real.unused_lanes == g_spec.unused_lanes &&
                         g_real.num_lanes_inuse == g_spec.num_lanes_inuse && g_real.args.digest[w] == g_spec.args.digest[w] &&
                         g_real.total_num_lanes == g_spec.total_num_lanes && g_real.road_block == g_spec.road_block &&
                         g_real.ldata[L].outer_done == g_spec.ldata[L].outer_done && g_real.ldata[L].size_offset == g_spec.ldata[L].size_offset &&
                         g_real.ldata[L].start_offset == g_spec.ldata[L].start_offset &&
                         g_real.ldata[L].outer_block[j % sizeof(g_real.ldata[0].outer_block)] == g_spec.ldata[L].outer_block[j % sizeof(g_real.ldata[0].outer_block)],
                         "[C04] create_extra_blocks: lane ownership, free-lane stack, every digest column and all remaining manager fields untouched");
        if (L != lane)
                __CPROVER_assert(g_real.args.data_ptr[L] == g_spec.args.data_ptr[L], "[C04] create_extra_blocks: other lanes' data pointers untouched");
        __CPROVER_assert(g_real.args.data_ptr[lane] == &g_real.ldata[lane].extra_block[0], "[C02][C04] data pointer of the lane redirected to its own extra_block");
        __CPROVER_assert(g_tjob.msg_len_to_hash_in_bytes == len0, "[C04] the job itself is not written");
        __CPROVER_assert(!(r == MB_BLK - 1 && xb == 2 && L == lane && j == 2 * MB_BLK - 1), "[VACUITY] two-extra-block case reachable");
}
#else
static int
job_of_lane(const unsigned lane)
{
        for (int k = 0; k < NJ; k++)
                if (g_state->ldata[lane].job_in_lane == &g_job[k])
                        return k;
        return -1;
}

/* model of the NASM multi-lane kernel */
static void
kernel_model(MB_ARGS *args, uint32_t nblocks)
{
        for (unsigned lane = 0; lane < MB_LANES; lane++) {
                const int k = job_of_lane(lane);

                if (k >= 0) {
                        /* the watched block of the watched job, if it is among the blocks consumed now */
                        if ((unsigned) k == g_w && g_j >= g_blocks[k] && g_j - g_blocks[k] < nblocks) {
                                g_obs = args->data_ptr[lane][(uint64_t) (g_j - g_blocks[k]) * MB_BLK + g_i];
                                g_obs_set = 1;
                        }
                        g_blocks[k] += nblocks;
                        for (unsigned w = 0; w < 8; w++) {
                                g_col[k][w] = nondet_u64();
#if MB_WORD == 4
                                if (w < MB_DIGEST_WORDS_STATE)
                                        args->digest[MB_DIGEST_IDX(lane, w)] = (uint32_t) g_col[k][w];
#else
                                if (w < MB_DIGEST_WORDS_STATE)
                                        args->digest[MB_DIGEST_IDX(lane, w)] = g_col[k][w];
#endif
                        }
                }
                args->data_ptr[lane] += (uint64_t) nblocks * MB_BLK;
        }
}
void MB_KERNEL(MB_ARGS *args, uint32_t nblocks) { kernel_model(args, nblocks); }

static unsigned g_done[NJ];

static void
check_done(IMB_JOB *r)
{
        if (r == NULL)
                return;
        int k = -1;
        for (int q = 0; q < NJ; q++)
                if (r == &g_job[q])
                        k = q;
        __CPROVER_assert(k >= 0, "[C04] the manager hands back one of the jobs submitted to it");
        if (k < 0)
                return;
        g_done[k]++;
        const uint64_t len = g_job[k].msg_len_to_hash_in_bytes;
        __CPROVER_assert(g_blocks[k] == fips_nblocks(MB_TYPE, len), "[C02][C04] blocks compressed for this job = FIPS 180-4 padded length of ITS message / block size");
        __CPROVER_assert((g_job[k].status & IMB_STATUS_COMPLETED_AUTH) != 0, "[C04][C14] completed job has COMPLETED_AUTH added");
        const unsigned q = nondet_unsigned();
        __CPROVER_assume(q < MB_DIGEST_BYTES);
#if MB_WORD == 4
        const uint64_t word = (uint32_t) g_col[k][q / 4];
#else
        const uint64_t word = g_col[k][q / 8];
#endif
        __CPROVER_assert(g_tag[k][q] == (uint8_t) (word >> (8 * (MB_WORD - 1 - (q % MB_WORD)))), "[C02][C04] tag = big-endian image of this job's OWN lane digest column, truncated to the digest size");
        __CPROVER_assert(g_tag[k][MB_DIGEST_BYTES] == 0xA5, "[C02][C07] nothing is written past the tag");
        /* the lane just released is on top of the free-lane stack */
        const unsigned lane = (unsigned) (g_state->unused_lanes & 15);
        __CPROVER_assert(lane < MB_LANES && g_state->ldata[lane].job_in_lane == NULL, "[C04][C05][C15] released lane is pushed on the free-lane stack and marked empty");
        if (lane < MB_LANES && (len % MB_BLK) != 0) {
                const unsigned i = nondet_unsigned();
                __CPROVER_assume(i < MB_BLK);
                __CPROVER_assert(g_state->ldata[lane].extra_block[i] == 0, "[C13] message tail copied into the lane's extra_block is wiped before the job is handed back");
        }
}

void
h_sha_mb(void)
{
        static MB_STATE g_st;       /* static object: CBMC keeps its fields apart (field sensitivity) */
        MB_STATE *st = &g_st;

        g_state = st;
        MB_RESET(st, MB_LANES);
        for (int k = 0; k < NJ; k++) {
                g_job[k] = nondet_job();
                for (unsigned i = 0; i < MB_MAXLEN + 8; i++)
                        g_msg[k][i] = (uint8_t) nondet_unsigned();
                __CPROVER_assume(g_job[k].msg_len_to_hash_in_bytes <= MB_MAXLEN);
                g_job[k].src = g_msg[k];
                __CPROVER_assume(g_job[k].hash_start_src_offset_in_bytes <= 8);   /* g_msg has 8 spare bytes */
                g_job[k].auth_tag_output = g_tag[k];
                g_job[k].status = IMB_STATUS_BEING_PROCESSED;
                g_tag[k][MB_DIGEST_BYTES] = 0xA5;
        }
        g_w = nondet_unsigned(); g_j = nondet_unsigned(); g_i = nondet_unsigned();
        __CPROVER_assume(g_w < NJ && g_i < MB_BLK);

        IMB_JOB *r0 = MB_SUBMIT(st, &g_job[0]);
        __CPROVER_assert(r0 == NULL, "[C04] with free lanes left a submit parks the job and hands back nothing");
        IMB_JOB *r1 = MB_SUBMIT(st, &g_job[1]);
        check_done(r1);
        __CPROVER_assert(r1 != NULL, "[C04][C05] with all lanes occupied a submit completes a job");
        IMB_JOB *r2 = MB_FLUSH(st, &g_job[0]);
        check_done(r2);
        __CPROVER_assert(r2 != NULL && r2 != r1, "[C04][C05] flush hands back the remaining job, not the one already returned");
        IMB_JOB *r3 = MB_FLUSH(st, &g_job[0]);
        __CPROVER_assert(r3 == NULL, "[C04][C05] flush of an empty manager hands back nothing");
        __CPROVER_assert(g_done[0] == 1 && g_done[1] == 1, "[C04][C05] each job handed back exactly once");
        /* the watched byte of the watched job */
        {
                const uint64_t len = g_job[g_w].msg_len_to_hash_in_bytes;
                if (g_j < fips_nblocks(MB_TYPE, len))
                        __CPROVER_assert(g_obs_set && g_obs == fips_pad_byte(MB_TYPE, g_msg[g_w] + g_job[g_w].hash_start_src_offset_in_bytes, len, (uint64_t) g_j * MB_BLK + g_i),
                                         "[C02][C04] byte i of block j compressed for a job = FIPS 180-4 padding of ITS OWN message, whatever the other lane holds");
        }
        __CPROVER_assert(st->num_lanes_inuse == 0 && st->ldata[0].job_in_lane == NULL && st->ldata[1].job_in_lane == NULL,
                         "[C04][C05][C15] after both jobs are handed back every lane is free again");
        __CPROVER_assert(!(g_job[0].msg_len_to_hash_in_bytes == MB_BLK - MB_LENFIELD && g_job[1].msg_len_to_hash_in_bytes == 3 && r1 == &g_job[1]),
                         "[VACUITY] short job overtaking a threshold-length job reachable");
}
#endif /* MB_UNIT_XBLK */
