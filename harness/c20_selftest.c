/*
 * C20: the gating logic of the REAL lib/x86_64/self_test.c.
 * The four per-vector KAT functions are replaced (goto-instrument --replace-calls) by models
 * that return an arbitrary verdict and record which vector they were given; everything else -
 * self_test(), self_test_exec(), the three group loops, make_callback() - is the real code.
 * Obligations, for an arbitrary assignment of verdicts to ALL vectors:
 *   - every vector of every table is run exactly once, in table order
 *   - return value 1  <=>  every vector passed
 *   - IMB_FEATURE_SELF_TEST set; IMB_FEATURE_SELF_TEST_PASS set <=> return 1 (whatever it was
 *     before); no other feature bit touched
 *   - callback stream: START(type of the group, description of the vector) then FAIL or PASS
 *     according to that vector's verdict, for every vector, nothing else
 */
#include <stdlib.h>
#include <string.h>
#include "x86_64/self_test.c"

#define N_C (sizeof(cipher_vectors) / sizeof(cipher_vectors[0]))
#define N_H (sizeof(hash_vectors) / sizeof(hash_vectors[0]))
#define N_G (sizeof(aead_gcm_vectors) / sizeof(aead_gcm_vectors[0]))
#define N_M (sizeof(aead_ccm_vectors) / sizeof(aead_ccm_vectors[0]))
#define N_ALL (N_C + N_H + N_G + N_M)

int nondet_int(void);
uint64_t nondet_u64(void);
_Bool nondet_bool(void);

unsigned g_run;               /* vectors run so far */
int g_verdict[N_ALL];         /* verdict handed to vector #i (global order) */
int g_order_ok = 1;           /* each model was given the expected next vector */

static int
kat_model(const unsigned expect_idx_in_table, const unsigned table_base, const unsigned table_len, const long given_idx)
{
        (void) expect_idx_in_table;
        if (g_run < table_base || g_run >= table_base + table_len || given_idx != (long) (g_run - table_base))
                g_order_ok = 0;
        const int v = nondet_bool();
        if (g_run < N_ALL)
                g_verdict[g_run] = v;
        g_run++;
        return v;
}

int model_self_test_cipher(IMB_MGR *p_mgr, const struct self_test_cipher_vector *v) { (void) p_mgr; return kat_model(0, 0, N_C, v - cipher_vectors); }
int model_self_test_hash(IMB_MGR *p_mgr, const struct self_test_hash_vector *v) { (void) p_mgr; return kat_model(0, N_C, N_H, v - hash_vectors); }
int model_self_test_aead_gcm(IMB_MGR *p_mgr, const struct self_test_aead_gcm_vector *v) { (void) p_mgr; return kat_model(0, N_C + N_H, N_G, v - aead_gcm_vectors); }
int model_self_test_aead_ccm(IMB_MGR *p_mgr, const struct self_test_aead_ccm_vector *v) { (void) p_mgr; return kat_model(0, N_C + N_H + N_G, N_M, v - aead_ccm_vectors); }

/* callback log */
#define LOG_N (2 * N_ALL + 2)
unsigned g_cb_n;
char g_cb_phase[LOG_N];
const char *g_cb_type[LOG_N];
const char *g_cb_descr[LOG_N];
void *g_cb_arg_seen;

static int
cb_logger(void *arg, const IMB_SELF_TEST_CALLBACK_DATA *d)
{
        g_cb_arg_seen = arg;
        if (g_cb_n < LOG_N) {
                g_cb_phase[g_cb_n] = d->phase ? d->phase[0] : '?';
                g_cb_type[g_cb_n] = d->type;
                g_cb_descr[g_cb_n] = d->descr;
        }
        g_cb_n++;
        return nondet_int();
}

/* manager handlers reachable from the gating code: only flush (queue drain before a group) */
static unsigned g_flush_left;
static IMB_JOB g_some_job;
static IMB_JOB *
flush_model(IMB_MGR *m)
{
        (void) m;
        if (g_flush_left == 0)
                return NULL;
        g_flush_left--;
        return &g_some_job;
}

static const char *
expect_descr(const unsigned i)
{
        if (i < N_C) return cipher_vectors[i].description;
        if (i < N_C + N_H) return hash_vectors[i - N_C].description;
        if (i < N_C + N_H + N_G) return aead_gcm_vectors[i - N_C - N_H].description;
        return aead_ccm_vectors[i - N_C - N_H - N_G].description;
}

void
h_self_test(void)
{
        IMB_MGR *m = malloc(sizeof(*m));
        static int cb_token;
        const int with_cb = nondet_bool();

        __CPROVER_assume(m != NULL);
        m->self_test_cb_fn = with_cb ? cb_logger : NULL;
        m->self_test_cb_arg = &cb_token;
        m->flush_job = flush_model;
        g_flush_left = nondet_bool() ? 1 : 0;
        const uint64_t f0 = m->features = nondet_u64();

        const int ret = self_test(m);

        int all = 1;
        for (unsigned i = 0; i < N_ALL; i++)
                if (!g_verdict[i])
                        all = 0;
        __CPROVER_assert(g_run == N_ALL && g_order_ok, "[C20] every vector of every KAT table runs exactly once, in table order");
        __CPROVER_assert((ret != 0) == (all != 0), "[C20] self-test passes iff every known-answer comparison passed");
        __CPROVER_assert(ret == 0 || ret == 1, "[C20] self-test result is 0 or 1");
        __CPROVER_assert((m->features & IMB_FEATURE_SELF_TEST) != 0, "[C20] IMB_FEATURE_SELF_TEST announced");
        __CPROVER_assert(((m->features & IMB_FEATURE_SELF_TEST_PASS) != 0) == (ret != 0), "[C20] IMB_FEATURE_SELF_TEST_PASS set iff the self-test passed, whatever the bit was before");
        __CPROVER_assert(((m->features ^ f0) & ~(uint64_t) (IMB_FEATURE_SELF_TEST | IMB_FEATURE_SELF_TEST_PASS)) == 0, "[C20] no other feature bit changes");
        if (with_cb) {
                __CPROVER_assert(g_cb_n == 2 * N_ALL, "[C20] exactly one START and one PASS/FAIL callback per vector");
                for (unsigned i = 0; i < N_ALL; i++) {
                        const char *ty = i < N_C ? IMB_SELF_TEST_TYPE_KAT_CIPHER : i < N_C + N_H ? IMB_SELF_TEST_TYPE_KAT_AUTH : IMB_SELF_TEST_TYPE_KAT_AEAD;
                        __CPROVER_assert(g_cb_phase[2 * i] == 'S' && g_cb_descr[2 * i] == expect_descr(i) && g_cb_type[2 * i] != NULL &&
                                                 strcmp(g_cb_type[2 * i], ty) == 0,
                                         "[C20] START callback names the vector and its group");
                        __CPROVER_assert(g_cb_phase[2 * i + 1] == (g_verdict[i] ? 'P' : 'F'), "[C20] FAIL reported for exactly the vectors that failed, PASS for the others");
                }
                __CPROVER_assert(g_cb_arg_seen == &cb_token, "[C20] callbacks receive the registered argument");
        }
        __CPROVER_assert(!(ret == 0 && g_verdict[N_ALL - 1] == 0 && g_verdict[0] == 1), "[VACUITY] a run failing only late vectors is reachable");
}
