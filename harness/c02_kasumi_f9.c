/*
 * C02 / C07: KASUMI f9 (3GPP TS 35.201 integrity function) for one buffer, the REAL
 * kasumi_f9_1_buffer() of lib/include/kasumi_internal.h through kasumi_f9_1_buffer_sse()
 * (the C code is shared by every variant).  The message already carries COUNT||FRESH||...||DIR||1
 * padding (built by the caller, as the job API documents).
 * The KASUMI block function is replaced by a checking contract model (arbitrary result) which
 * checks the f9 chaining at every call, for messages of ANY accepted length (the block loop is
 * closed by a loop contract generated per run, vlib/loopgen.py):
 *   call n < full blocks : key IK,        input = A[n-1] xor M[n]          (A[-1] = 0, M big-endian)
 *   tail (len % 8 != 0)  : key IK,        input = A xor (tail bytes, zero-filled to 64 bits)
 *   last call            : key IK xor KM, input = B = xor of all A[n]
 *   MAC-I = left 32 bits of the last result, big-endian; 4 bytes written, nothing else.
 * C07: the message buffer is an object of exactly `len` bytes and pointer checks are on: any read
 * at or beyond message + len (e.g. a whole-word load of the 1..7-byte tail) is an obligation
 * failure; safe_memcpy (NASM) is modelled as a byte copy of exactly the requested size.
 */
#include <stdlib.h>
#include <stdint.h>
#include <string.h>
#include "sse_t1/kasumi_sse.c"

unsigned nondet_unsigned(void);
uint64_t nondet_u64(void);

kasumi_key_sched_t g_ks;
const uint8_t *g_msg;
uint64_t g_len, g_full, g_calls, g_a, g_b;
int g_ok;
uint64_t g_last_out;

/* big-endian 64-bit word from the first nbytes bytes at p, zero-filled (no loop: it is called from inside the contracted loop) */
#define B_(i) ((uint64_t) ((i) < nbytes ? p[i] : 0) << (8 * (7 - (i))))
static uint64_t
be64_at(const uint8_t *p, const unsigned nbytes)
{
        return B_(0) | B_(1) | B_(2) | B_(3) | B_(4) | B_(5) | B_(6) | B_(7);
}

void
contract_kasumi_1_block(const uint16_t *context, uint16_t *data)
{
        uint64_t in, out = nondet_u64();
        const unsigned tail = (unsigned) (g_len % 8);
        const uint64_t data_calls = g_full + (tail ? 1 : 0);

        memcpy(&in, data, 8);
        if (g_calls < data_calls) {
                const uint64_t m = g_calls < g_full ? be64_at(g_msg + 8 * g_calls, 8) : be64_at(g_msg + 8 * g_full, tail);

                if (context != g_ks.sk16 || in != (g_a ^ m))
                        g_ok = 0;
                g_a = out;
                g_b ^= out;
        } else {
                if (g_calls != data_calls || context != g_ks.msk16 || in != g_b)
                        g_ok = 0;
                g_last_out = out;
        }
        memcpy(data, &out, 8);
        g_calls++;
}

void safe_memcpy(void *dst, const void *src, const size_t size)
{
        for (unsigned i = 0; i < 8; i++)
                if (i < size)
                        ((uint8_t *) dst)[i] = ((const uint8_t *) src)[i];
        __CPROVER_assert(size <= 8, "[C07] f9 tail copy is at most one block");
}
void clear_scratch_xmms_sse(void) { }
void clear_scratch_gps(void) { }
void force_memset_zero(void *p, const uint64_t n) { memset(p, 0, n); }

void
h_kasumi_f9(void)
{
        const uint32_t len = nondet_unsigned();
        uint8_t mac[8];

        __CPROVER_assume(len >= 1 && len <= KASUMI_MAX_LEN / CHAR_BIT);
        uint8_t *msg = malloc(len);     /* exactly the message: one byte more is outside the object */
        __CPROVER_assume(msg != NULL);
        g_msg = msg; g_len = len; g_full = len / 8; g_calls = 0; g_a = 0; g_b = 0; g_ok = 1; g_last_out = 0;
        for (unsigned i = 0; i < 8; i++)
                mac[i] = (uint8_t) nondet_unsigned();
        const uint8_t m4 = mac[4];

        kasumi_f9_1_buffer_sse(&g_ks, msg, len, mac);

        __CPROVER_assert(g_ok, "[C02] KASUMI f9 for ANY length: A[n] = KASUMI_IK(A[n-1] xor M[n]) over the big-endian message blocks, zero-filled tail, final block KASUMI_{IK xor KM}(xor of all A[n]) (TS 35.201 4.5)");
        __CPROVER_assert(g_calls == g_full + (len % 8 ? 1 : 0) + 1, "[C02] KASUMI f9: one block call per 8 message bytes, one for a partial tail, one final");
        const unsigned q = nondet_unsigned();
        __CPROVER_assume(q < 4);
        __CPROVER_assert(mac[q] == (uint8_t) (g_last_out >> (8 * (7 - q))), "[C02] KASUMI f9: MAC-I = left 32 bits of the final block, big-endian");
        __CPROVER_assert(mac[4] == m4, "[C07] KASUMI f9: exactly 4 bytes of MAC are written");
        __CPROVER_assert(!(len == 1003 && g_calls == 127), "[VACUITY] 1003-byte message (125 blocks + 3-byte tail) reachable");
}
