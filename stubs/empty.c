/* nothing: bodies removed from the binary are spurious function-pointer candidates (API entry points never called by the stage dispatchers) */
