/* cpuid model: one fixed, arbitrary feature word per run (the CPU does not change between calls) */
#include <stdint.h>
extern uint64_t g_cpu;
uint64_t cpu_feature_detect(void) { return g_cpu; }
