/* JOBS() model for the burst validation unit: tracked window of BMAX slots from the tail,
 * every other slot is one catch-all object.  Stage / check models: stubs/c05_burst_models.c */
#include "intel-ipsec-mb.h"
#define BMAX 3
extern unsigned g_n;
extern IMB_JOB g_win[BMAX];
extern IMB_JOB g_far;

IMB_JOB *
JOBS(IMB_MGR *state, const int offset)
{
        const int idx = offset / (int) sizeof(IMB_JOB);
        const unsigned d = ((unsigned) idx - g_n) & (IMB_MAX_JOBS - 1);

        (void) state;
        __CPROVER_assert(offset >= 0 && idx < IMB_MAX_JOBS && idx * (int) sizeof(IMB_JOB) == offset,
                         "[C05] JOBS() is only ever called with a slot-boundary offset inside the ring");
        return d < BMAX ? &g_win[d] : &g_far;
}
