/*
 * C16: the three byte-offset store/load helpers of alloc.c are verified on their own
 * (c16_helpers unit) and, in the proof of imb_set_pointers_mb_mgr(), replaced by models that
 * record what they were asked to do instead of doing it.  The layout obligations are then
 * stated over that record, and the frame of the function is "its own direct stores" plus the
 * recorded helper stores.  (Doing the 82 byte-offset stores into the 229 KB block inside one
 * query never finished: > 30 min.)
 */
#include <stdint.h>
#include <stddef.h>
#include "intel-ipsec-mb.h"

#define LOGN 64
unsigned g_sp_n;
size_t g_sp_off[LOGN];
uint8_t *g_sp_ptr[LOGN];
unsigned g_rb_n;
uint8_t *g_rb_ptr[LOGN];
size_t g_rb_off[LOGN];
unsigned g_gp_misses;

void
set_ooo_ptr(IMB_MGR *mgr, const size_t offset, uint8_t *new_ptr)
{
        (void) mgr;
#ifdef MODELS_NO_LOG
        return; /* frame unit: the store is accounted for by unit A; nothing is written here */
#endif
        if (g_sp_n < LOGN) {
                g_sp_off[g_sp_n] = offset;
                g_sp_ptr[g_sp_n] = new_ptr;
        }
        g_sp_n++;
}

uint8_t *
get_ooo_ptr(IMB_MGR *mgr, const size_t offset)
{
        uint8_t *r = NULL;
        int found = 0;

        (void) mgr;
#ifdef MODELS_NO_LOG
        return (uint8_t *) mgr; /* any valid pointer: the road-block model ignores it */
#endif
        for (unsigned i = 0; i < LOGN; i++)
                if (i < g_sp_n && g_sp_off[i] == offset) {
                        r = g_sp_ptr[i]; /* last store wins */
                        found = 1;
                }
        if (!found)
                g_gp_misses++; /* a pointer is read that this call did not set */
        return r;
}

void
set_road_block(uint8_t *ooo_ptr, const size_t offset)
{
#ifdef MODELS_NO_LOG
        return;
#endif
        if (g_rb_n < LOGN) {
                g_rb_ptr[g_rb_n] = ooo_ptr;
                g_rb_off[g_rb_n] = offset;
        }
        g_rb_n++;
}
