/*
 * Precondition-checking models of the stage dispatchers (C06 table layer).  Each is the
 * callee contract "requires" turned into call-site assertions; the real bodies are removed
 * with goto-instrument --remove-function-body and these are linked in their place.
 * Names are passed by the unit registry (-DD_SUBMIT_ENC=..., read from the variant's #defines).
 */
#include "intel-ipsec-mb.h"
#include "suite_table.h"

unsigned g_cipher_disp, g_hash_disp;
IMB_JOB *nondet_jobp(void);

static IMB_JOB *
ret_model(IMB_JOB *job)
{
        /* a dispatcher hands back NULL, or a job with at least its stage completed */
        return nondet_jobp();
}

#define CIPHER_DISP(NAME, DIRCOND, WHAT)                                                           \
        IMB_JOB *NAME(IMB_MGR *state, IMB_JOB *job, const IMB_CIPHER_MODE cipher_mode,             \
                      const uint64_t key_sz)                                                       \
        {                                                                                          \
                (void) state;                                                                      \
                __CPROVER_assert(cipher_mode == job->cipher_mode,                                  \
                                 "[C06] " WHAT ": table entry names the job's cipher mode");       \
                __CPROVER_assert(suite_dispatch_ok(job, cipher_mode, key_sz),                      \
                                 "[C06] " WHAT ": key-size slot names the job's key size");        \
                __CPROVER_assert(DIRCOND, "[C06] " WHAT ": table half matches the job direction"); \
                g_cipher_disp++;                                                                   \
                return ret_model(job);                                                             \
        }

CIPHER_DISP(D_SUBMIT_ENC,
            job->cipher_direction == IMB_DIR_ENCRYPT || job->cipher_mode == IMB_CIPHER_NULL,
            "cipher submit (encrypt)")
CIPHER_DISP(D_SUBMIT_DEC,
            job->cipher_direction == IMB_DIR_DECRYPT || job->cipher_mode == IMB_CIPHER_NULL,
            "cipher submit (decrypt)")
CIPHER_DISP(D_FLUSH_ENC,
            job->cipher_direction == IMB_DIR_ENCRYPT || job->cipher_mode == IMB_CIPHER_NULL,
            "cipher flush (encrypt)")
CIPHER_DISP(D_FLUSH_DEC,
            job->cipher_direction == IMB_DIR_DECRYPT || job->cipher_mode == IMB_CIPHER_NULL,
            "cipher flush (decrypt)")

#define HASH_DISP(NAME, WHAT)                                                                      \
        IMB_JOB *NAME(IMB_MGR *state, IMB_JOB *job, const IMB_HASH_ALG hash_alg)                   \
        {                                                                                          \
                (void) state;                                                                      \
                __CPROVER_assert(hash_alg == job->hash_alg,                                        \
                                 "[C06] " WHAT ": table entry names the job's hash algorithm");    \
                g_hash_disp++;                                                                     \
                return ret_model(job);                                                             \
        }
HASH_DISP(D_SUBMIT_HASH, "hash submit")
HASH_DISP(D_FLUSH_HASH, "hash flush")

#define GCM_DIRECT(NAME, KEY, DIR, WHAT)                                                           \
        IMB_JOB *NAME(IMB_MGR *state, IMB_JOB *job)                                                \
        {                                                                                          \
                (void) state;                                                                      \
                __CPROVER_assert(job->cipher_mode == IMB_CIPHER_GCM &&                             \
                                         job->key_len_in_bytes == (KEY) &&                         \
                                         job->cipher_direction == (DIR),                           \
                                 "[C06] " WHAT " bound only to its own (GCM, key size, direction)"); \
                g_cipher_disp++;                                                                   \
                return ret_model(job);                                                             \
        }
GCM_DIRECT(D_GCM_ENC_128, 16, IMB_DIR_ENCRYPT, "AES-GCM-128 encrypt entry")
GCM_DIRECT(D_GCM_ENC_192, 24, IMB_DIR_ENCRYPT, "AES-GCM-192 encrypt entry")
GCM_DIRECT(D_GCM_ENC_256, 32, IMB_DIR_ENCRYPT, "AES-GCM-256 encrypt entry")
GCM_DIRECT(D_GCM_DEC_128, 16, IMB_DIR_DECRYPT, "AES-GCM-128 decrypt entry")
GCM_DIRECT(D_GCM_DEC_192, 24, IMB_DIR_DECRYPT, "AES-GCM-192 decrypt entry")
GCM_DIRECT(D_GCM_DEC_256, 32, IMB_DIR_DECRYPT, "AES-GCM-256 decrypt entry")
