/*
 * Over-approximating models of what the ring scheduler calls (C05).
 *  - JOBS(): typed slot lookup restricted to the head and tail slot (see harness/c05_ring.c)
 *  - stages: the status of the two tracked slots may change arbitrarily (superset of "stages
 *    progress in-flight jobs"); the job handed back by the stage sequencer is the one just
 *    submitted or the queued one we track, and it has status >= COMPLETED
 *  - complete_job() returns only when the given job has status >= COMPLETED (its loop guard)
 *  - the parameter check writes nothing but the error code (proved in C12)
 * These are assumptions about submit_new_job/complete_job/is_job_invalid; the first two are
 * themselves checked against the stage-level lane model in the chain units.
 */
#include "intel-ipsec-mb.h"
#include "include/error.h"

extern unsigned g_e, g_n;
extern int g_empty;
extern IMB_JOB g_slot_n, g_slot_e;
unsigned g_submit_new_calls, g_complete_calls, g_check_calls;
int g_check_ret, g_check_errno;
IMB_JOB *g_submitted;

int nondet_int(void);
unsigned nondet_unsigned(void);
_Bool nondet_bool(void);

IMB_JOB *
JOBS(IMB_MGR *state, const int offset)
{
        const int idx = offset / (int) sizeof(IMB_JOB);

        (void) state;
        __CPROVER_assert(offset >= 0 && idx < IMB_MAX_JOBS && idx * (int) sizeof(IMB_JOB) == offset,
                         "[C05] JOBS() is only ever called with a slot-boundary offset inside the ring");
        if ((unsigned) idx == g_n)
                return &g_slot_n;
        __CPROVER_assert(!g_empty && (unsigned) idx == g_e,
                         "[C05][C14] a single-job ring operation touches only the head and the tail slot");
        return &g_slot_e;
}

static void
ring_progress(void)
{
        /* the stages can only move jobs they were given: the tail slot only once it has been
         * handed to submit_new_job() in this call, the queued head always */
        if (g_submitted == &g_slot_n && nondet_bool())
                g_slot_n.status = (IMB_STATUS) nondet_int();
        if (!g_empty && nondet_bool())
                g_slot_e.status = (IMB_STATUS) nondet_int();
}

static IMB_STATUS
done_status(void)
{
        const int s = nondet_int();
        __CPROVER_assume(s == IMB_STATUS_COMPLETED || s == IMB_STATUS_INTERNAL_ERROR ||
                         s == IMB_STATUS_ERROR);
        return (IMB_STATUS) s;
}

/* NULL, or a finished job that is in flight: the one just submitted, the tracked head, or
 * (queue longer than one) some other queued job the single-job code never looks at */
static IMB_JOB g_other_queued;
static IMB_JOB *
hand_back(IMB_JOB *job)
{
        if (nondet_bool())
                return NULL;
        IMB_JOB *r = job;
        if (!g_empty && nondet_bool())
                r = nondet_bool() ? &g_slot_e : &g_other_queued;
        if (r != &g_other_queued)
                r->status = done_status();
        return r;
}

IMB_JOB *
submit_new_job(IMB_MGR *state, IMB_JOB *job)
{
        (void) state;
        g_submit_new_calls++;
        g_submitted = job;
        ring_progress();
        return hand_back(job);
}

IMB_JOB *
submit_new_burst_job(IMB_MGR *state, IMB_JOB *job)
{
        (void) state;
        g_submit_new_calls++;
        g_submitted = job;
        ring_progress();
        return hand_back(job);
}

uint32_t
complete_job(IMB_MGR *state, IMB_JOB *job)
{
        (void) state;
        g_complete_calls++;
        ring_progress();
        if (job->status < IMB_STATUS_COMPLETED)
                job->status = done_status();
        return nondet_unsigned();
}

uint32_t
complete_burst_job(IMB_MGR *state, IMB_JOB *job)
{
        (void) state;
        g_complete_calls++;
        ring_progress();
        if (job->status < IMB_STATUS_COMPLETED)
                job->status = done_status();
        return nondet_unsigned();
}

int
is_job_invalid(IMB_MGR *state, const IMB_JOB *job, const IMB_CIPHER_MODE cipher_mode,
               const IMB_HASH_ALG hash_alg, const IMB_CIPHER_DIRECTION cipher_direction,
               const uint64_t key_len_in_bytes)
{
        (void) job; (void) cipher_mode; (void) hash_alg; (void) cipher_direction; (void) key_len_in_bytes;
        g_check_calls++;
        g_check_ret = nondet_int();
        if (g_check_ret) {
                g_check_errno = nondet_int();
                __CPROVER_assume(g_check_errno != 0);
                imb_set_errno(state, g_check_errno);
        }
        return g_check_ret;
}
