/*
 * Over-approximating models of what the ring scheduler calls (C05).
 *  - the whole ring may change except the observed ghost descriptor byte
 *  - a job handed back by the stage sequencer is the job just submitted or a queued one
 *    (ghost view g_e/g_n/g_empty of the pre-state) and has status >= COMPLETED
 *  - complete_job() returns only when the given job has status >= COMPLETED (its loop guard)
 *  - the parameter check writes nothing but the error code (proved in C12)
 * These are assumptions about submit_new_job/complete_job/is_job_invalid; the first two are
 * themselves checked against the stage-level lane model in the c04/c06 chain units.
 */
#include "intel-ipsec-mb.h"
#include "include/error.h"

extern unsigned g_e, g_n;
extern int g_empty;
unsigned g_submit_new_calls, g_complete_calls, g_check_calls;
int g_check_ret, g_check_errno;

int nondet_int(void);
unsigned nondet_unsigned(void);
_Bool nondet_bool(void);

extern unsigned g_k, g_f;

/*
 * Everything in the ring may change - a superset of "the stages move the status of in-flight
 * jobs" - except the one arbitrary caller-owned descriptor byte the contracts observe
 * (the stages' own frame, job->status only, is proved in the dispatcher units).
 */
static void
ring_progress(IMB_MGR *state)
{
#ifdef EXP_NO_PROGRESS
        return;
#endif
        uint8_t *const ring = (uint8_t *) state->jobs;
        const unsigned off = g_k * (unsigned) sizeof(IMB_JOB) + g_f;
        const uint8_t keep = ring[off];

        __CPROVER_havoc_slice(state->jobs, sizeof(state->jobs));
        ring[off] = keep;
}

static IMB_STATUS
done_status(void)
{
        const int s = nondet_int();
        __CPROVER_assume(s == IMB_STATUS_COMPLETED || s == IMB_STATUS_INTERNAL_ERROR ||
                         s == IMB_STATUS_ERROR);
        return (IMB_STATUS) s;
}

static IMB_JOB *
hand_back(IMB_MGR *state, IMB_JOB *job)
{
        if (nondet_bool())
                return NULL;
        IMB_JOB *r = job;
        if (!g_empty && nondet_bool()) {
                const unsigned d = nondet_unsigned();
                __CPROVER_assume(d < ((g_n - g_e) & (IMB_MAX_JOBS - 1)));
                r = &state->jobs[(g_e + d) & (IMB_MAX_JOBS - 1)];
        }
        r->status = done_status();
        return r;
}

IMB_JOB *
submit_new_job(IMB_MGR *state, IMB_JOB *job)
{
        g_submit_new_calls++;
        ring_progress(state);
        return hand_back(state, job);
}

IMB_JOB *
submit_new_burst_job(IMB_MGR *state, IMB_JOB *job)
{
        g_submit_new_calls++;
        ring_progress(state);
        return hand_back(state, job);
}

uint32_t
complete_job(IMB_MGR *state, IMB_JOB *job)
{
        g_complete_calls++;
        ring_progress(state);
        if (job->status < IMB_STATUS_COMPLETED)
                job->status = done_status();
        return nondet_unsigned();
}

uint32_t
complete_burst_job(IMB_MGR *state, IMB_JOB *job)
{
        g_complete_calls++;
        ring_progress(state);
        if (job->status < IMB_STATUS_COMPLETED)
                job->status = done_status();
        return nondet_unsigned();
}

int
is_job_invalid(IMB_MGR *state, const IMB_JOB *job, const IMB_CIPHER_MODE cipher_mode,
               const IMB_HASH_ALG hash_alg, const IMB_CIPHER_DIRECTION cipher_direction,
               const uint64_t key_len_in_bytes)
{
        (void) job; (void) cipher_mode; (void) hash_alg; (void) cipher_direction; (void) key_len_in_bytes;
        g_check_calls++;
        g_check_ret = nondet_int();
        if (g_check_ret) {
                g_check_errno = nondet_int();
                __CPROVER_assume(g_check_errno != 0);
                imb_set_errno(state, g_check_errno);
        }
        return g_check_ret;
}

/*
 * JOBS(): the real one forms (IMB_JOB *) ((char *) state->jobs + offset).  For offsets that are
 * slot boundaries this is &state->jobs[offset / sizeof(IMB_JOB)] - proved for every slot in the
 * c05_jobs_lemma unit on the real function - and the ring proofs use the typed form, with the
 * precondition asserted at each call site (what keeps the queries small: no byte-offset
 * dereference into the 56 KB manager object).
 */
#ifndef EXP_REAL_JOBS
IMB_JOB *
JOBS(IMB_MGR *state, const int offset)
{
        const int idx = offset / (int) sizeof(IMB_JOB);

        __CPROVER_assert(offset >= 0 && idx < IMB_MAX_JOBS && idx * (int) sizeof(IMB_JOB) == offset,
                         "[C05] JOBS() is only ever called with a slot-boundary offset inside the ring");
        return &state->jobs[idx];
}
#endif
