/*
 * Models for the burst units (C05/C12/C06, bounded): the stage sequencers only log and move the
 * status of the job they are given; the parameter check returns the harness-chosen verdict for
 * that job (the real check is C12's proof).
 */
#include "intel-ipsec-mb.h"
#include "include/error.h"

#define LOG_MAX 8
unsigned g_bs_calls;            /* submit_new_burst_job calls */
IMB_JOB *g_bs_log[LOG_MAX];     /* ... and their arguments, in order */
unsigned g_bc_calls;            /* complete_burst_job calls */
unsigned g_chk_calls;
extern const IMB_JOB *g_bad_job; /* the job the (abstract) parameter check rejects, or NULL */
extern int g_bad_errno;

int nondet_int(void);
unsigned nondet_unsigned(void);
_Bool nondet_bool(void);

static IMB_STATUS
done_status(void)
{
        const int s = nondet_int();
        __CPROVER_assume(s == IMB_STATUS_COMPLETED || s == IMB_STATUS_INTERNAL_ERROR ||
                         s == IMB_STATUS_ERROR);
        return (IMB_STATUS) s;
}

IMB_JOB *
submit_new_burst_job(IMB_MGR *state, IMB_JOB *job)
{
        (void) state;
        if (g_bs_calls < LOG_MAX)
                g_bs_log[g_bs_calls] = job;
        g_bs_calls++;
        if (nondet_bool())
                job->status = done_status(); /* completes at once, or stays parked */
        return NULL;
}

uint32_t
complete_burst_job(IMB_MGR *state, IMB_JOB *job)
{
        (void) state;
        g_bc_calls++;
        if (job->status < IMB_STATUS_COMPLETED)
                job->status = done_status();
        return 1;
}

int
is_job_invalid(IMB_MGR *state, const IMB_JOB *job, const IMB_CIPHER_MODE cipher_mode,
               const IMB_HASH_ALG hash_alg, const IMB_CIPHER_DIRECTION cipher_direction,
               const uint64_t key_len_in_bytes)
{
        (void) cipher_mode; (void) hash_alg; (void) cipher_direction; (void) key_len_in_bytes;
        g_chk_calls++;
        if (job == g_bad_job) {
                imb_set_errno(state, g_bad_errno);
                return 1;
        }
        return 0;
}
