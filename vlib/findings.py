"""Known findings (committed file /verif/known_findings.txt; never written at run time).

Line formats
  finding: property=<id> unit=<unit-regex> obligation=<regex on obligation name/description> signature=<regex on replay signature> :: <what fails>
  fixed: property=<id> <commit> <what failed>          (informational; suppresses nothing)
"""
import os, re

PATH = os.path.join(os.path.dirname(os.path.dirname(os.path.abspath(__file__))), "known_findings.txt")


def load():
    out = []
    if not os.path.exists(PATH):
        return out
    for ln in open(PATH):
        ln = ln.strip()
        if not ln.startswith("finding:"):
            continue
        head, _, text = ln[len("finding:"):].partition("::")
        kv = dict(re.findall(r"(\w+)=(\S+)", head))
        kv["text"] = text.strip()
        kv["key"] = head.strip()
        out.append(kv)
    return out


def match(known, pid, unit, ob, info):
    sig = info.get("signature", "")
    for k in known:
        if k.get("property") != pid:
            continue
        if not re.search(k.get("unit", "."), unit):
            continue
        if not re.search(k.get("obligation", "."), ob.get("name", "") + " " + ob.get("description", "")):
            continue
        if "signature" in k and not re.search(k["signature"], sig):
            continue
        return k
    return None
