"""Core pipeline: goto-cc -> goto-instrument (DFCC contracts) -> cbmc, result parsing.

Every call rebuilds from /repo's working tree.  No caching between runs.
Exit-code policy lives in bin/check.py; this module only reports facts.
"""
import json, os, re, shutil, subprocess, tempfile, time, resource
from dataclasses import dataclass, field
from typing import List, Tuple, Optional, Dict, Callable

REPO = os.environ.get("VERIF_REPO", "/repo")
VERIF = os.path.dirname(os.path.dirname(os.path.abspath(__file__)))

# Flags of the production build (from _build/compile_commands.json) minus
# optimisation / warning / machine flags that goto-cc does not model.
BASE_DEFS = ["-DLINUX", "-DSAFE_DATA", "-DSAFE_LOOKUP", "-DSAFE_PARAM", "-DAVX_IFMA",
             "-DNDEBUG", "-DIPSec_MB_EXPORTS"]
BASE_INCS = [f"-I{REPO}/lib", f"-I{REPO}/lib/include", f"-I{VERIF}", f"-I{VERIF}/spec",
             f"-I{VERIF}/contracts", f"-I{VERIF}/stubs"]
GUARD = "IMB_VERIF_CBMC"

SPEC_CLASSES = {"assertion", "postcondition", "precondition", "loop_invariant_base",
                "loop_invariant_step", "loop_step_unwinding", "loop_decreases", "unwind",
                "precondition_instance", "no-body"}
FRAME_CLASSES = {"assigns", "loop_assigns", "frees"}
SAFETY_CLASSES = {"pointer_dereference", "array_bounds", "pointer_arithmetic", "pointer_primitives",
                  "overflow", "undefined-shift", "division-by-zero", "pointer", "bounds",
                  "memory-leak", "enum-range", "NaN", "alignment", "deallocated", "dead",
                  "invalid", "null", "conversion"}


@dataclass
class Unit:
    name: str
    harness: str                      # path relative to /verif/harness
    entry: str                        # harness entry function
    props: Dict[str, str]             # property id -> selector ("spec", "frame", "safety", "all", or "tag")
    enforce: List[Tuple[str, str]] = field(default_factory=list)
    replace: List[Tuple[str, str]] = field(default_factory=list)
    loops: Optional[str] = None       # loop-contract json relative to /verif/loops
    defines: List[str] = field(default_factory=list)
    extra_src: List[str] = field(default_factory=list)   # more .c files linked in (relative /verif)
    remove_bodies: List[str] = field(default_factory=list)
    stub_src: List[str] = field(default_factory=list)     # linked after body removal
    cbmc_flags: List[str] = field(default_factory=list)
    checks: Tuple[str, ...] = ("--bounds-check", "--pointer-check")
    unwind: Optional[int] = None
    unwindset: List[str] = field(default_factory=list)
    object_bits: int = 12
    timeout: int = 900
    mem_gb: int = 16
    tier: str = "quick"               # "quick" units run in both tiers
    functions: List[str] = field(default_factory=list)    # functions under contract / verified
    trusted: List[str] = field(default_factory=list)
    bounded: Optional[str] = None     # description of the bound if this unit is a bounded stand-in
    min_obligations: int = 1
    sources: List[str] = field(default_factory=list)      # /repo files this unit verifies
    expect_cover: int = 0             # number of cover goals that must be SATISFIED (vacuity guard)
    replay: Optional[str] = None      # name of replay generator in vlib/replay.py
    dfcc: bool = True
    backend: List[str] = field(default_factory=list)      # e.g. ["--sat-solver","cadical"]
    nondet_static: bool = False
    weight: int = 1                   # rough cores/mem weight for the scheduler
    slice: str = ""                   # what slice of the property this unit decides
    add_library: bool = True          # link CBMC's libc models (memset/memcpy/...) before DFCC
    pregen: Optional[str] = None      # name of a per-run header generator in vlib/pregen.py
    probes: Optional[List[str]] = None  # if set: exactly these [VACUITY] probes (substring match) must be reachable
    replace_calls: List[Tuple[str, str]] = field(default_factory=list)  # goto-instrument --replace-calls f:g
    autostub: bool = False            # two-pass build: generate logging stubs for every function without a C body
    loopgen: Optional[str] = None     # per-run generator (vlib/loopgen.py) of a --loop-contracts-file for code we may not edit; non-DFCC units:
                                      # goto-instrument --remove-function-pointers, then --loop-contracts-file F --apply-loop-contracts


@dataclass
class UnitResult:
    unit: Unit
    status: str = "error"             # ok | fail | error
    reason: str = ""
    obligations: List[dict] = field(default_factory=list)
    covers: List[dict] = field(default_factory=list)
    solver_s: float = 0.0
    wall_s: float = 0.0
    cmds: List[str] = field(default_factory=list)
    log: str = ""
    backend: str = ""
    autostubs: List[str] = field(default_factory=list)


def _limits(mem_gb):
    def f():
        lim = mem_gb * (1 << 30)
        resource.setrlimit(resource.RLIMIT_AS, (lim, lim))
        os.setsid()
    return f


def sh(cmd, timeout, mem_gb=16, cwd=None):
    t0 = time.time()
    try:
        p = subprocess.Popen(cmd, stdout=subprocess.PIPE, stderr=subprocess.PIPE, cwd=cwd,
                             preexec_fn=_limits(mem_gb))
        try:
            out, err = p.communicate(timeout=timeout)
        except subprocess.TimeoutExpired:
            try:
                os.killpg(p.pid, 9)
            except Exception:
                p.kill()
            out, err = p.communicate()
            return 124, out.decode(errors="replace"), err.decode(errors="replace") + "\nTIMEOUT", time.time() - t0
        return p.returncode, out.decode(errors="replace"), err.decode(errors="replace"), time.time() - t0
    except Exception as e:  # tool missing etc.
        return 127, "", repr(e), time.time() - t0


def prop_class(name: str, desc: str) -> str:
    # property ids look like  "fn.assertion.3", "fn.pointer_dereference.7", "fn.assigns.2",
    # "contract::fn.postcondition.1" ...
    m = re.match(r"^(.*)\.([A-Za-z_\-]+)\.(\d+)$", name)
    if m:
        return m.group(2)
    return "assertion"


_SRC_CACHE = {}


def _src_tags(loc: str):
    """property tags written as a comment on (or up to 3 lines above, within the same clause) the source line of a contract clause"""
    try:
        f, ln = loc.rsplit(":", 1)
        ln = int(ln)
    except Exception:
        return []
    if not f.startswith(VERIF):
        return []
    if f not in _SRC_CACHE:
        try:
            _SRC_CACHE[f] = open(f).read().splitlines()
        except OSError:
            _SRC_CACHE[f] = []
    lines = _SRC_CACHE[f]
    if not (1 <= ln <= len(lines)):
        return []
    # a clause may span several lines: scan forward to the line that closes it (next clause / end)
    tags = re.findall(r"\[(C\d\d)\]", lines[ln - 1])
    k = ln
    while not tags and k < len(lines) and not re.match(r"\s*(__CPROVER_|;|/\*\s*clang)", lines[k]):
        tags = re.findall(r"\[(C\d\d)\]", lines[k])
        k += 1
    return tags


def select(u: Unit, pid: str, ob: dict) -> bool:
    """Does obligation `ob` of unit `u` count for property `pid`?"""
    sel = u.props.get(pid)
    if sel is None:
        return False
    tags = re.findall(r"\[(C\d\d)\]", ob["description"])
    if not tags and ob.get("class") in ("postcondition", "precondition"):
        tags = _src_tags(ob.get("loc", ""))
    if tags:
        return pid in tags
    cls = ob["class"]
    # obligations generated from a loop contract carry the argument of every property the unit decides:
    # an invariant that is not established / preserved, a variant that does not decrease or a write outside the loop's
    # frame leaves the tagged conclusions without support, so they count for each of them
    if (u.loopgen or u.loops) and re.match(r"Check (that loop invariant|loop invariant|decreases|variant|that .* is assignable|invariant)", ob["description"]):
        return True
    if sel == "all":
        return True
    if sel == "tag":
        return False
    wanted = set(sel.split("+"))
    if "spec" in wanted and (cls in SPEC_CLASSES or (cls not in FRAME_CLASSES and cls not in SAFETY_CLASSES)):
        return True
    if "frame" in wanted and cls in FRAME_CLASSES:
        return True
    if "safety" in wanted and cls in SAFETY_CLASSES:
        return True
    return False


def build_and_check(u: Unit, workdir: str, trace: bool = False, only_props: Optional[List[str]] = None) -> UnitResult:
    r = UnitResult(unit=u)
    t0 = time.time()
    os.makedirs(workdir, exist_ok=True)
    a = os.path.join(workdir, "a.gb")
    b = os.path.join(workdir, "b.gb")
    srcs = [os.path.join(VERIF, "harness", u.harness)] + [os.path.join(VERIF, s) for s in u.extra_src]
    defs = BASE_DEFS + [f"-D{GUARD}"] + [f"-D{d}" for d in u.defines]
    if u.pregen:
        from vlib import pregen as _pg
        try:
            defs = defs + _pg.GENERATORS[u.pregen](workdir)
        except Exception as e:
            r.reason = "pregen %s failed: %r" % (u.pregen, e)
            r.wall_s = time.time() - t0
            return r
    if u.autostub:
        from vlib import stubgen as _sg
        p1 = os.path.join(workdir, "pass1.gb")
        cc1 = ["goto-cc", "-std=c99"] + defs + ["-DSTUB_PASS1"] + BASE_INCS + ["--function", u.entry] + srcs + ["-o", p1]
        r.cmds.append(" ".join(cc1))
        rc, out, err, _ = sh(cc1, 600, 8)
        r.log += out + err
        if rc != 0:
            r.reason = "goto-cc (stub pass 1) failed: " + (out + err)[-2000:]
            r.wall_s = time.time() - t0
            return r
        funcs = _sg.undefined_functions(p1)
        text, names, info, problems = _sg.gen(funcs)
        if problems:
            r.reason = "stub generation: " + "; ".join(problems[:8])
            r.wall_s = time.time() - t0
            return r
        sf = os.path.join(workdir, "autostubs.h")
        with open(sf, "w") as fh:
            fh.write(text)
        defs = defs + ['-DAUTOSTUBS_FILE="%s"' % sf]
        r.autostubs = names
    cc = ["goto-cc", "-std=c99"] + defs + BASE_INCS + ["--function", u.entry] + srcs + ["-o", a]
    r.cmds.append(" ".join(cc))
    rc, out, err, _ = sh(cc, 600, 8)
    r.log += out + err
    if rc != 0:
        r.reason = "goto-cc failed (rc=%d): %s" % (rc, (out + err)[-2000:])
        r.wall_s = time.time() - t0
        return r
    if u.replace_calls:
        arc = os.path.join(workdir, "arc.gb")
        cmd = ["goto-instrument"] + sum([["--replace-calls", "%s:%s" % fg] for fg in u.replace_calls], []) + [a, arc]
        r.cmds.append(" ".join(cmd))
        rc, out, err, _ = sh(cmd, 600, 8)
        r.log += out + err
        if rc != 0:
            r.reason = "replace-calls failed: " + (out + err)[-1500:]
            r.wall_s = time.time() - t0
            return r
        a = arc
    if u.remove_bodies:
        a2 = os.path.join(workdir, "a2.gb")
        cmd = ["goto-instrument"] + sum([["--remove-function-body", f] for f in u.remove_bodies], []) + [a, a2]
        r.cmds.append(" ".join(cmd))
        rc, out, err, _ = sh(cmd, 600, 8)
        r.log += out + err
        if rc != 0:
            r.reason = "remove-function-body failed: " + (out + err)[-1500:]
            r.wall_s = time.time() - t0
            return r
        a3 = os.path.join(workdir, "a3.gb")
        cmd = ["goto-cc", "-std=c99"] + defs + BASE_INCS + ["--function", u.entry, a2] + \
              [os.path.join(VERIF, s) for s in u.stub_src] + ["-o", a3]
        r.cmds.append(" ".join(cmd))
        rc, out, err, _ = sh(cmd, 600, 8)
        r.log += out + err
        if rc != 0:
            r.reason = "stub link failed: " + (out + err)[-1500:]
            r.wall_s = time.time() - t0
            return r
        a = a3
    if u.add_library:
        al = os.path.join(workdir, "al.gb")
        cmd = ["goto-instrument", "--add-library", a, al]
        r.cmds.append(" ".join(cmd))
        rc, out, err, _ = sh(cmd, 600, 8)
        r.log += out + err
        if rc != 0:
            r.reason = "add-library failed: " + (out + err)[-1500:]
            r.wall_s = time.time() - t0
            return r
        a = al
    if u.loopgen and not u.dfcc:
        from vlib import loopgen as _lg
        afp = os.path.join(workdir, "afp.gb")
        cmd = ["goto-instrument", "--remove-function-pointers", a, afp]
        r.cmds.append(" ".join(cmd))
        rc, out, err, _ = sh(cmd, 600, 8)
        r.log += out + err
        if rc != 0:
            r.reason = "remove-function-pointers failed: " + (out + err)[-1500:]
            r.wall_s = time.time() - t0
            return r
        try:
            lj = _lg.GENERATORS[u.loopgen](afp, workdir, os.path.join(VERIF, "harness", u.harness))
        except Exception as e:
            r.reason = "loop-contract generation %s failed (loop or local renamed/removed?): %r" % (u.loopgen, e)
            r.wall_s = time.time() - t0
            return r
        alc = os.path.join(workdir, "alc.gb")
        cmd = ["goto-instrument", "--loop-contracts-file", lj, "--apply-loop-contracts", afp, alc]
        r.cmds.append(" ".join(cmd))
        rc, out, err, _ = sh(cmd, 900, u.mem_gb)
        r.log += out + err
        if rc != 0 or not os.path.exists(alc):
            r.reason = "apply-loop-contracts failed (rc=%d): %s" % (rc, (out + err)[-2500:])
            r.wall_s = time.time() - t0
            return r
        a = alc
    if u.dfcc:
        gi = ["goto-instrument", "--dfcc", u.entry]
        for f, c in u.enforce:
            gi += ["--enforce-contract", f"{f}/{c}" if c else f]
        for f, c in u.replace:
            gi += ["--replace-call-with-contract", f"{f}/{c}" if c else f]
        if u.loops:
            gi += ["--loop-contracts-file", os.path.join(VERIF, "loops", u.loops), "--apply-loop-contracts"]
        if u.nondet_static:
            gi += ["--nondet-static"]
        gi += [a, b]
        r.cmds.append(" ".join(gi))
        rc, out, err, _ = sh(gi, 900, u.mem_gb)
        r.log += out + err
        if rc != 0:
            r.reason = "goto-instrument failed (rc=%d): %s" % (rc, (out + err)[-3000:])
            r.wall_s = time.time() - t0
            return r
    else:
        b = a
    cb = ["cbmc", b, "--json-ui", "--object-bits", str(u.object_bits)] + list(u.checks) + list(u.cbmc_flags) + list(u.backend)
    if u.unwind is not None:
        cb += ["--unwind", str(u.unwind), "--unwinding-assertions"]
    for us in u.unwindset:
        cb += ["--unwindset", us]
    if u.unwindset and u.unwind is None:
        cb += ["--unwinding-assertions"]
    if u.expect_cover:
        pass
    if trace:
        cb += ["--trace"]
    if only_props:
        for p in only_props:
            cb += ["--property", p]
    r.cmds.append(" ".join(cb))
    rc, out, err, _ = sh(cb, u.timeout, u.mem_gb)
    r.wall_s = time.time() - t0
    r.log += err
    if rc == 124:
        r.reason = "cbmc timeout after %ds" % u.timeout
        return r
    try:
        msgs = json.loads(out)
    except Exception:
        r.reason = "cbmc output not JSON (rc=%d): %s" % (rc, (out[-1500:] + err[-1500:]))
        return r
    results = None
    texts = []
    for m in msgs:
        if isinstance(m, dict):
            if "result" in m:
                results = m["result"]
            if "messageText" in m:
                texts.append(m["messageText"])
            if "program" in m:
                r.backend = m["program"]
    txt = "\n".join(texts)
    r.log += txt
    for mm in re.finditer(r"Runtime Solver: ([0-9.eE+-]+)s", txt):
        r.solver_s += float(mm.group(1))
    sol = re.findall(r"(?:Running |using |Solving with )([^\n]*)", txt)
    r.backend = "; ".join(sorted(set(x.strip() for x in sol)))[:200] or "cbmc default (MiniSAT 2.2.1)"
    if results is None:
        r.reason = "cbmc produced no result list (rc=%d): %s" % (rc, txt[-2500:])
        return r
    if re.search(r"ignoring forall|ignoring exists", txt):
        r.reason = "quantifier ignored by back end"
        return r
    for p in results:
        ob = {"name": p.get("property", "?"), "description": p.get("description", ""),
              "status": p.get("status", "?"),
              "loc": "%s:%s" % (p.get("sourceLocation", {}).get("file", "?"), p.get("sourceLocation", {}).get("line", "?")),
              "function": p.get("sourceLocation", {}).get("function", "?")}
        ob["class"] = prop_class(ob["name"], ob["description"])
        if "trace" in p:
            ob["trace"] = p["trace"]
        r.obligations.append(ob)
    if len(r.obligations) < u.min_obligations:
        r.reason = "vacuity guard: %d obligations < expected minimum %d" % (len(r.obligations), u.min_obligations)
        return r
    # vacuity guards: obligations tagged [VACUITY] are reachability probes that MUST fail
    vac_all = [o for o in r.obligations if "[VACUITY]" in o["description"]]
    # probes inside other harness entry functions of the same file are not part of this unit
    if u.probes is not None:
        vac = [o for o in vac_all if any(p in o["description"] for p in u.probes)]
        if len(vac) < len(u.probes):
            r.reason = "vacuity guard: expected reachability probes missing from the binary"
            return r
    else:
        vac = [o for o in vac_all if not (o.get("function", "").startswith("h_") and o.get("function") != u.entry)]
    dead = [o for o in vac if o["status"] != "FAILURE"]
    if dead:
        r.reason = "vacuity guard: reachability probe not reachable: " + "; ".join(o["description"][:80] for o in dead[:4])
        return r
    r.covers = vac
    r.obligations = [o for o in r.obligations if "[VACUITY]" not in o["description"]]
    r.obligations = [o for o in r.obligations if not (o["class"] == "unwind" and False)]
    infra = [o for o in r.obligations if "[INFRA]" in o["description"] and o["status"] == "FAILURE"]
    if infra:
        r.reason = "infrastructure obligation failed (not a property verdict): " + "; ".join(o["description"][:120] for o in infra[:3])
        return r
    r.obligations = [o for o in r.obligations if "[INFRA]" not in o["description"]]
    nobody = [o for o in r.obligations if "undefined function should be unreachable" in o["description"]
              and o["status"] == "FAILURE"]
    if nobody:
        r.reason = "call to a function without body and without stub/contract: " + ", ".join(
            sorted(set(o["name"].split(".")[0] for o in nobody)))
        return r
    bad = [o for o in r.obligations if o["status"] not in ("SUCCESS", "FAILURE")]
    if bad and any(o["status"] == "FAILURE" for o in r.obligations):
        # the verifier produced a counterexample for some obligations and left others open (UNKNOWN):
        # a refuted obligation is a verdict on its own; the open ones are dropped from this run's count
        r.obligations = [o for o in r.obligations if o["status"] in ("SUCCESS", "FAILURE")]
        bad = []
    if bad:
        r.reason = "undecided obligations: " + ", ".join(o["name"] + "=" + o["status"] for o in bad[:5])
        return r
    r.status = "fail" if any(o["status"] == "FAILURE" for o in r.obligations) else "ok"
    return r


def trace_assignments(trace) -> Dict[str, str]:
    """Flatten a CBMC JSON trace into {lhs: last value} (plus ordered list under '__order')."""
    vals = {}
    order = []
    for st in trace or []:
        if st.get("stepType") == "assignment" and not st.get("hidden", False):
            lhs = st.get("lhs")
            v = st.get("value", {})
            val = v.get("data", v.get("name"))
            if lhs is not None:
                vals[lhs] = {"value": val, "binary": v.get("binary"), "type": v.get("type")}
                order.append(lhs)
    vals["__order"] = order
    return vals
