"""Registry of proof units. One unit = one goto-cc/goto-instrument/cbmc run on a harness that
#includes the REAL source file(s); contracts are attached from /verif (no edit of /repo)."""
from vlib.core import Unit

COMMON_ASSUMPTIONS = [
    "CBMC 6.11 C semantics of the unoptimised translation unit (gcc -O2 code generation is not modelled)",
    "machine integers are fixed-width bit-vectors exactly as in C (no mathematical-integer idealisation)",
    "every function without a C body (NASM kernels, libc) is replaced by the stub/contract listed in trusted_base",
    "NDEBUG as in the production build: IMB_ASSERT expands to nothing",
]
SLICES = {}
ASSUMPTIONS = {}
_UNITS = []


def add(u):
    _UNITS.append(u)
    return u


def all_units():
    return list(_UNITS)


# ---------------------------------------------------------------- C12
SLICES["C12"] = ("is_job_invalid / is_job_invalid_light == documented constraint catalogue (soundness, completeness, "
                 "errno names a violated constraint, descriptor and buffers outside the frame); rejected jobs in "
                 "submit_job_and_check / bursts: status INVALID_ARGS, no dispatcher call; direct-API NULL/limit checks in C")
ASSUMPTIONS["C12"] = ["catalogue rows were transcribed by hand from intel-ipsec-mb.h / README / the standards",
                      "SGL_ALL segment arrays explored up to 2 segments (bounded sub-item, see coverage.bounded)"]

add(Unit(name="c12_is_job_invalid", harness="c12_job_check.c", entry="h_is_job_invalid",
         props={"C12": "spec+frame", "C06": "tag", "C07": "safety"},
         enforce=[("is_job_invalid", "contract_is_job_invalid")], unwind=9, timeout=900,
         functions=["is_job_invalid", "imb_set_errno"], sources=["lib/include/mb_mgr_job_check.h", "lib/include/error.h"],
         replay="job_check", min_obligations=2000,
         slice="full symbolic IMB_JOB x cipher_mode x hash_alg x direction x key_len; SGL_ALL arrays <= 2 segments"))
add(Unit(name="c12_is_job_invalid_light", harness="c12_job_check.c", entry="h_is_job_invalid_light",
         props={"C12": "spec+frame", "C06": "tag"},
         enforce=[("is_job_invalid_light", "contract_is_job_invalid_light")], unwind=9, timeout=600,
         functions=["is_job_invalid_light"], sources=["lib/include/mb_mgr_job_check.h"], replay="job_check",
         slice="all (cipher_mode, hash_alg, direction, key_len) template tuples"))
