"""Registry of proof units. One unit = one goto-cc/goto-instrument/cbmc run on a harness that
#includes the REAL source file(s); contracts are attached from /verif (no edit of /repo)."""
from vlib.core import Unit

COMMON_ASSUMPTIONS = [
    "CBMC 6.11 C semantics of the unoptimised translation unit (gcc -O2 code generation is not modelled)",
    "machine integers are fixed-width bit-vectors exactly as in C (no mathematical-integer idealisation)",
    "every function without a C body (NASM kernels, libc) is replaced by the stub/contract listed in trusted_base",
    "NDEBUG as in the production build: IMB_ASSERT expands to nothing",
]
SLICES = {}
ASSUMPTIONS = {}
_UNITS = []


def add(u):
    _UNITS.append(u)
    return u


def all_units():
    return list(_UNITS)


# ---------------------------------------------------------------- C12
SLICES["C12"] = ("is_job_invalid / is_job_invalid_light == documented constraint catalogue (soundness, completeness, "
                 "errno names a violated constraint, descriptor and buffers outside the frame); rejected jobs in "
                 "submit_job_and_check / bursts: status INVALID_ARGS, no dispatcher call; direct-API NULL/limit checks in C")
ASSUMPTIONS["C12"] = ["catalogue rows were transcribed by hand from intel-ipsec-mb.h / README / the standards",
                      "SGL_ALL segment arrays explored up to 2 segments (bounded sub-item, see coverage.bounded)"]

add(Unit(name="c12_is_job_invalid", harness="c12_job_check.c", entry="h_is_job_invalid",
         props={"C12": "spec+frame", "C07": "safety"},
         enforce=[("is_job_invalid", "contract_is_job_invalid")], unwind=9, timeout=900,
         functions=["is_job_invalid", "imb_set_errno"], sources=["lib/include/mb_mgr_job_check.h", "lib/include/error.h"],
         replay="job_check", min_obligations=2000,
         slice="full symbolic IMB_JOB x cipher_mode x hash_alg x direction x key_len; SGL_ALL arrays <= 2 segments"))
add(Unit(name="c12_is_job_invalid_light", harness="c12_job_check.c", entry="h_is_job_invalid_light",
         props={"C12": "spec+frame"},
         enforce=[("is_job_invalid_light", "contract_is_job_invalid_light")], unwind=9, timeout=600,
         functions=["is_job_invalid_light"], sources=["lib/include/mb_mgr_job_check.h"], replay="job_check",
         slice="all (cipher_mode, hash_alg, direction, key_len) template tuples"))


# ---------------------------------------------------------------- per-variant units
import re, os
from vlib.core import REPO

ARCHS = {  # variant -> real translation unit; quick tier covers one unit per ISA family
    "sse_t1": ("sse_t1/mb_mgr_sse_t1.c", "quick"), "sse_t2": ("sse_t2/mb_mgr_sse_t2.c", "thorough"),
    "sse_t3": ("sse_t3/mb_mgr_sse_t3.c", "thorough"), "avx2_t1": ("avx2_t1/mb_mgr_avx2_t1.c", "thorough"),
    "avx2_t2": ("avx2_t2/mb_mgr_avx2_t2.c", "quick"), "avx2_t3": ("avx2_t3/mb_mgr_avx2_t3.c", "thorough"),
    "avx2_t4": ("avx2_t4/mb_mgr_avx2_t4.c", "thorough"), "avx512_t1": ("avx512_t1/mb_mgr_avx512_t1.c", "thorough"),
    "avx512_t2": ("avx512_t2/mb_mgr_avx512_t2.c", "quick"),
}


def unit_macro(arch, name):
    """resolve a per-variant #define (e.g. SUBMIT_JOB_CIPHER_ENC) from the real source, each run"""
    try:
        src = open(os.path.join(REPO, "lib", ARCHS[arch][0])).read()
    except OSError:
        return name
    m = re.search(r"#define\s+%s\s+(\w+)" % re.escape(name), src)
    return m.group(1) if m else name


# ---------------------------------------------------------------- C06
SLICES["C06"] = ("table layer on the real per-variant units: every job accepted by the real is_job_invalid() reaches, through "
                 "calc_cipher_tab_index()/hash_alg (job API) and suite_id (burst API), a dispatcher called with the job's own cipher mode, "
                 "key size, direction and hash algorithm; AEAD pairings exclusive (shared with C12); suite id = (table index, hash); "
                 "stage sequencing in submit_new_job/RESUBMIT_JOB")
ASSUMPTIONS["C06"] = ["kernel identity below the C binding is by symbol name (assembly not modelled)",
                      "SGL_ALL jobs restricted to <= 2 segments when the acceptance check is evaluated (segments play no role in dispatch)"]


def _c06_units():
    for arch, (f, tier) in ARCHS.items():
        names = {"D_SUBMIT_ENC": unit_macro(arch, "SUBMIT_JOB_CIPHER_ENC"), "D_SUBMIT_DEC": unit_macro(arch, "SUBMIT_JOB_CIPHER_DEC"),
                 "D_FLUSH_ENC": unit_macro(arch, "FLUSH_JOB_CIPHER_ENC"), "D_FLUSH_DEC": unit_macro(arch, "FLUSH_JOB_CIPHER_DEC"),
                 "D_SUBMIT_HASH": unit_macro(arch, "SUBMIT_JOB_HASH_EX"), "D_FLUSH_HASH": unit_macro(arch, "FLUSH_JOB_HASH_EX")}
        for k in ("128", "192", "256"):
            names["D_GCM_ENC_" + k] = unit_macro(arch, "AES_GCM_ENC_IV_" + k)
            names["D_GCM_DEC_" + k] = unit_macro(arch, "AES_GCM_DEC_IV_" + k)
        for entry in ("h_submit_cipher", "h_flush_cipher", "h_submit_hash", "h_flush_hash", "h_call_suite"):
            add(Unit(name="c06_%s_%s" % (entry[2:], arch), harness="c06_dispatch.c", entry=entry, props={"C06": "spec", "C09": "tag"},
                     dfcc=False, add_library=False,
                     remove_bodies=[names[k] for k in ("D_SUBMIT_ENC", "D_SUBMIT_DEC", "D_FLUSH_ENC", "D_FLUSH_DEC", "D_SUBMIT_HASH", "D_FLUSH_HASH")],
                     stub_src=["stubs/c06_dispatch_stubs.c"],
                     defines=['UNIT_FILE="%s"' % f] + ["%s=%s" % kv for kv in names.items()],
                     checks=("--no-standard-checks",), unwind=4, timeout=1200, tier=tier,
                     functions=["SUBMIT_JOB_CIPHER", "FLUSH_JOB_CIPHER", "SUBMIT_JOB_HASH", "FLUSH_JOB_HASH", "calc_cipher_tab_index",
                                "set_cipher_suite_id", "SET_SUITE_ID_FN", "CALL_SUBMIT_CIPHER", "CALL_FLUSH_CIPHER", "CALL_SUBMIT_HASH",
                                "CALL_FLUSH_HASH", "tab_submit_cipher[]/tab_flush_cipher[]/tab_submit_hash[]/tab_flush_hash[] wrappers (%s)" % arch],
                     trusted=["dispatchers %s modelled by their precondition (proved separately in the binding units)" % ", ".join(sorted(set(names.values())))],
                     sources=["lib/" + f, "lib/include/mb_mgr_job_api.h", "lib/include/mb_mgr_job_check.h"],
                     min_obligations=20, slice="all accepted descriptors, variant " + arch))


_c06_units()
add(Unit(name="c06_pairing", harness="c12_job_check.c", entry="h_pairing", props={"C06": "spec"}, dfcc=False, add_library=False,
         checks=("--no-standard-checks",), unwind=4, timeout=600, functions=["is_job_invalid", "is_job_invalid_light"],
         sources=["lib/include/mb_mgr_job_check.h"], min_obligations=5,
         slice="AEAD pairing exclusivity for every accepted descriptor / session template"))


# ---------------------------------------------------------------- C14
SLICES["C14"] = ("error code plumbing (imb_get_strerror total, imb_set_errno/imb_get_errno); ring operations leave every caller-owned "
                 "descriptor byte of every slot untouched and hand back only jobs with no stage outstanding; per-call errno 0 / code; "
                 "stage dispatchers in C write nothing of the descriptor but status (binding units)")
ASSUMPTIONS["C14"] = ["writes performed inside NASM kernels are outside C contracts (assumed: status only)"]
for _e, _f in (("h_strerror", "imb_get_strerror"), ("h_get_errno", "imb_get_errno"), ("h_set_errno", "imb_set_errno")):
    add(Unit(name="c14_" + _f, harness="c14_error.c", entry=_e, props={"C14": "spec+frame", "C07": "safety"},
             enforce=[(_f, "contract_" + _f)], timeout=300, functions=[_f], sources=["lib/x86_64/error.c", "lib/include/error.h"],
             trusted=["strerror (libc) returns a non-NULL string"], slice="all int arguments / all manager states"))


# ---------------------------------------------------------------- C15
SLICES["C15"] = ("every ooo_mgr_*_reset erases all prior state (2-run equality for an arbitrary byte), writes nothing past road_block, "
                 "leaves all lanes free, for every lane count a variant passes; every variant's init resets every manager and the ring")
ASSUMPTIONS["C15"] = ["behaviour of the NASM kernels on a freshly reset manager is outside C contracts"]
from vlib.pregen import RESET_FNS
for _f in RESET_FNS:
    add(Unit(name="c15_" + _f, harness="c15_reset.c", entry="h_" + _f, props={"C15": "spec", "C07": "safety"}, dfcc=False,
             pregen="c15_lanes", unwind=17, timeout=900, functions=[_f], sources=["lib/x86_64/ooo_mgr_reset.c"],
             backend=(["--sat-solver", "cadical"] if "hmac" in _f else []),
             trusted=["memset (CBMC library model)"], slice="all prior contents x lane counts used by the nine variants"))


# ---------------------------------------------------------------- C05 ring scheduler
SLICES["C05"] = ("every public ring operation of the real per-variant unit against an abstract FIFO view (ghost head/tail slot indexes over the "
                 "real 256-slot ring): exact accounting, oldest-first hand-back only with no stage outstanding, full queue forces completion, "
                 "free slot offered is not in flight; stage sequencers abstracted by over-approximating models")
ASSUMPTIONS["C05"] = ["termination of the flush loops (progress of the NASM managers) is assumed: partial correctness",
                      "submit_new_job/complete_job (+burst twins) modelled: whole ring may change, job handed back is queued and has status >= COMPLETED",
                      "JOBS() used in its typed form &state->jobs[offset/sizeof(IMB_JOB)] (equivalence proved in c05_jobs_lemma)"]
_RING_MODELS = ["submit_new_job", "submit_new_burst_job", "complete_job", "complete_burst_job", "is_job_invalid", "JOBS"]


def _ring_units():
    ops = [  # (tag, harness entry, function macro to resolve, contract)
        ("get_next_job", "h_get_next_job", "GET_NEXT_JOB", "contract_get_next_job"),
        ("queue_size", "h_queue_size", "QUEUE_SIZE", "contract_queue_size"),
        ("get_completed_job", "h_get_completed_job", "GET_COMPLETED_JOB", "contract_get_completed_job"),
        ("flush_job", "h_flush_job", "FLUSH_JOB", "contract_flush_job"),
        ("submit_job", "h_submit_job", "submit_job_and_check", "contract_submit_job_and_check"),
    ]
    for arch, (f, tier) in ARCHS.items():
        t = "quick" if arch == "sse_t1" else "thorough"   # the scheduler text is one header; other variants differ by macro names only
        for tag, entry, mac, con in ops:
            fn = unit_macro(arch, mac)
            add(Unit(name="c05_%s_%s" % (tag, arch), harness="c05_ring.c", entry=entry,
                     props={"C05": "spec", "C14": "frame", "C12": "tag", "C07": "safety"},
                     enforce=[(fn, con)], remove_bodies=_RING_MODELS, stub_src=["stubs/c05_models.c"],
                     defines=['UNIT_FILE="%s"' % f], unwind=3, timeout=900, mem_gb=12, tier=t,
                     functions=[fn], sources=["lib/" + f, "lib/include/mb_mgr_job_api.h", "lib/include/mb_mgr_code.h"],
                     trusted=["models in stubs/c05_models.c for " + ", ".join(_RING_MODELS)], min_obligations=40,
                     slice="all ring states (ghost head/tail over the 256-slot ring), all stage behaviours of the model"))
        add(Unit(name="c05_jobs_lemma_%s" % arch, harness="c05_ring.c", entry="h_jobs_lemma", props={"C05": "spec", "C07": "safety"},
                 dfcc=False, add_library=False, defines=['UNIT_FILE="%s"' % f, "LEMMA_REAL_JOBS"], unwind=3, timeout=600, tier=t,
                 functions=["JOBS"], sources=["lib/include/mb_mgr_code.h"], slice="all 256 slots"))


_ring_units()

_BURST_BOUND = ("burst size 0..3 or > IMB_MAX_BURST_SIZE; ring tail position from {0,1,100,253,254,255} x queue length from "
                "{0,1,2,253,254,255}; slot contents, statuses and completion pattern symbolic")
for _arch, (_f, _tier) in ARCHS.items():
    _t = "quick" if _arch == "sse_t1" else "thorough"
    for _e, _probe in (("h_get_next_burst", "get-next-burst harness"), ("h_flush_burst", "flush-burst emptying")):
        add(Unit(name="c05_%s_%s" % (_e[2:], _arch), harness="c05_burst.c", entry=_e,
                 props={"C05": "tag", "C12": "tag", "C14": "tag"}, dfcc=False, add_library=False,
                 remove_bodies=["submit_new_burst_job", "complete_burst_job", "is_job_invalid"], stub_src=["stubs/c05_burst_models.c"],
                 defines=['UNIT_FILE="%s"' % _f], checks=("--no-standard-checks",), unwind=6, timeout=900, tier=_t, probes=[_probe],
                 functions=[unit_macro(_arch, "GET_NEXT_BURST" if "next" in _e else "FLUSH_BURST")], bounded=_BURST_BOUND,
                 sources=["lib/include/mb_mgr_burst_async.h"], slice="bounded stand-in for the burst get-next / flush operations"))
    add(Unit(name="c05_submit_burst_check_%s" % _arch, harness="c05_burst_check.c", entry="h_submit_burst_check",
             props={"C05": "tag", "C12": "tag", "C06": "tag"}, dfcc=False, add_library=False,
             remove_bodies=["submit_new_burst_job", "complete_burst_job", "is_job_invalid", "JOBS"],
             stub_src=["stubs/c05_burst_models.c", "stubs/c05_burst_check_models.c"], defines=['UNIT_FILE="%s"' % _f],
             checks=("--no-standard-checks",), unwind=6, timeout=1200, tier=_t, probes=["suite-id rejection", "accepted burst reachable"],
             functions=["submit_burst_and_check (validation phase)"],
             bounded="burst size 0..3 or > IMB_MAX_BURST_SIZE; ring position and queue length fully symbolic; hand-back phase of accepted bursts not covered",
             sources=["lib/include/mb_mgr_burst_async.h"], slice="whole-burst validation before any submit; suite-id check"))
    add(Unit(name="c05_submit_burst_acct_%s" % _arch, harness="c05_burst_check.c", entry="h_submit_burst_check",
             props={"C05": "tag"}, dfcc=False, add_library=False,
             remove_bodies=["submit_new_burst_job", "complete_burst_job", "is_job_invalid", "JOBS"],
             stub_src=["stubs/c05_burst_models.c", "stubs/c05_burst_check_models.c"], defines=['UNIT_FILE="%s"' % _f, "WITH_ACCOUNTING"],
             checks=("--no-standard-checks",), unwind=6, timeout=3000, tier="thorough", probes=["accepted burst reachable"],
             functions=["submit_burst_and_check (accounting of accepted bursts)"],
             bounded="burst size 0..3; ring position and queue length fully symbolic; slot identity of handed-back jobs abstracted",
             sources=["lib/include/mb_mgr_burst_async.h"], slice="queue size after an accepted burst = before + submitted - handed back"))


# ---------------------------------------------------------------- C16
SLICES["C16"] = ("imb_set_pointers_mb_mgr: every manager pointer = base + fixed offset, 64-aligned, inside the block, pairwise disjoint, table = struct fields; "
                 "re-attach (reset_mgr=0) writes nothing but pointers/flags/features/errno/road blocks (ring and manager contents survive); reset zeroes the rest")
ASSUMPTIONS["C16"] = ["variant init functions and CPU detection are other translation units (modelled: log only); that NASM lane state holds no library-image addresses is not decided"]
add(Unit(name="c16_set_pointers", harness="c16_alloc.c", entry="h_set_pointers", props={"C16": "spec", "C15": "tag", "C14": "tag", "C07": "safety"},
         dfcc=False, pregen="c16_field_types", unwind=66, timeout=1800, mem_gb=24, remove_bodies=["set_ooo_ptr", "get_ooo_ptr", "set_road_block"], stub_src=["stubs/c16_models.c"],
         functions=["imb_set_pointers_mb_mgr", "imb_get_mb_mgr_size", "set_ooo_mgr_road_block"],
         sources=["lib/x86_64/alloc.c"], trusted=["init_mb_mgr_{sse,avx2,avx512}_internal, cpu_feature_detect/adjust modelled", "memset (CBMC model)"],
         probes=["re-attach path reachable"], slice="all 41 table entries and all pairs (fully unwound), both reset_mgr values"))
add(Unit(name="c16_set_pointers_frame", harness="c16_alloc.c", entry="h_set_pointers_dfcc", props={"C16": "spec+frame", "C15": "tag", "C07": "safety"},
         enforce=[("imb_set_pointers_mb_mgr", "contract_imb_set_pointers_mb_mgr")], pregen="c16_field_types", unwind=66, timeout=1800, mem_gb=24,
         defines=["MODELS_NO_LOG"],
         remove_bodies=["set_ooo_ptr", "get_ooo_ptr", "set_road_block"], stub_src=["stubs/c16_models.c"],
         functions=["imb_set_pointers_mb_mgr"], sources=["lib/x86_64/alloc.c"], trusted=["memset (CBMC model)", "helper stores recorded (unit A / helper unit)"],
         slice="assigns clause: re-attach writes errno/flags/features only (plus the recorded pointer and road-block stores); reset may write the whole block"))
add(Unit(name="c16_helpers", harness="c16_alloc.c", entry="h_helpers", props={"C16": "spec", "C07": "safety"}, dfcc=False, pregen="c16_field_types",
         defines=["REAL_HELPERS"], unwind=45, timeout=900, functions=["set_ooo_ptr", "get_ooo_ptr", "set_road_block"], sources=["lib/x86_64/alloc.c"], probes=[],
         slice="all offsets inside IMB_MGR / a manager, arbitrary watched byte"))
add(Unit(name="c16_set_pointers_null", harness="c16_alloc.c", entry="h_set_pointers_null", props={"C12": "tag", "C16": "safety"},
         dfcc=False, pregen="c16_field_types", unwind=45, timeout=300, functions=["imb_set_pointers_mb_mgr"], sources=["lib/x86_64/alloc.c"], probes=[]))


# ---------------------------------------------------------------- C08
SLICES["C08"] = ("variant selection: a variant's init runs only if its CPU-flag set is within adjust(flags, cpuid), the widest satisfiable variant is chosen, "
                 "SHANI_OFF/GFNI_OFF honoured, missing base flags or NULL manager => clean error with nothing initialised and no kernel executed; "
                 "for all 2^64 feature words and all flag words")
ASSUMPTIONS["C08"] = ["bit-identical outputs across NASM variants are not decidable by C contracts",
                      "cpu_feature_detect() (cpuid, assembly) modelled as one fixed arbitrary 64-bit word"]
for _e, _p in (("h_init_sse", None), ("h_init_avx2", None), ("h_init_avx512", None), ("h_init_internal", "avx2 type-2 reachable"), ("h_init_auto", "auto picks AVX2")):
    add(Unit(name="c08_" + _e[2:], harness="c08_init.c", entry=_e, props={"C08": "spec", "C12": "tag", "C14": "tag", "C15": "tag", "C16": "tag", "C20": "tag"},
             dfcc=False, remove_bodies=["cpu_feature_detect"], stub_src=["stubs/c08_cpu.c"], unwind=3, timeout=600,
             checks=("--no-standard-checks",), probes=([_p] if _p else []),
             functions=["init_mb_mgr_sse", "init_mb_mgr_sse_internal", "init_mb_mgr_avx2", "init_mb_mgr_avx2_internal", "init_mb_mgr_avx512",
                        "init_mb_mgr_avx512_internal", "init_mb_mgr_auto", "cpu_feature_adjust"],
             sources=["lib/sse_t1/mb_mgr_sse.c", "lib/avx2_t1/mb_mgr_avx2.c", "lib/avx512_t1/mb_mgr_avx512.c", "lib/x86_64/mb_mgr_auto.c", "lib/x86_64/cpu_feature.c"],
             trusted=["per-variant init_mb_mgr_<v>_internal and self_test modelled by their preconditions", "cpu_feature_detect modelled"],
             slice="all feature words x flag words"))


# ---------------------------------------------------------------- C20
SLICES["C20"] = ("gating logic of the self-test: result / IMB_FEATURE_SELF_TEST[_PASS] / IMB_ERR_SELFTEST / callback stream are exactly the conjunction of the per-vector "
                 "verdicts, every vector run once in order; init reports IMB_ERR_SELFTEST iff the self-test failed (c08 units)")
ASSUMPTIONS["C20"] = ["that corrupting a kernel changes its KAT output is a fact about the NASM kernels",
                      "per-vector KAT functions modelled by an arbitrary verdict in the gating unit"]
add(Unit(name="c20_gating", harness="c20_selftest.c", entry="h_self_test", props={"C20": "spec"}, dfcc=False,
         replace_calls=[("self_test_cipher", "model_self_test_cipher"), ("self_test_hash", "model_self_test_hash"),
                        ("self_test_aead_gcm", "model_self_test_aead_gcm"), ("self_test_aead_ccm", "model_self_test_aead_ccm")],
         checks=("--no-standard-checks",), unwind=70, timeout=900, probes=["failing only late vectors"],
         functions=["self_test", "self_test_exec", "self_test_ciphers", "self_test_hashes", "self_test_aead", "make_callback"],
         sources=["lib/x86_64/self_test.c"], trusted=["per-vector KAT functions replaced by verdict models", "strcmp (CBMC model)"],
         slice="all verdict assignments to all vectors, callback present or absent"))


_VFLAGS = {"sse_t1": "IMB_CPUFLAGS_SSE", "sse_t2": "IMB_CPUFLAGS_SSE_T2", "sse_t3": "IMB_CPUFLAGS_SSE_T3", "avx2_t1": "IMB_CPUFLAGS_AVX2",
           "avx2_t2": "IMB_CPUFLAGS_AVX2_T2", "avx2_t3": "IMB_CPUFLAGS_AVX2_T3", "avx2_t4": "IMB_CPUFLAGS_AVX2_T4",
           "avx512_t1": "IMB_CPUFLAGS_AVX512", "avx512_t2": "IMB_CPUFLAGS_AVX512_T2"}
for _arch, (_f, _tier) in ARCHS.items():
    add(Unit(name="c15_init_%s" % _arch, harness="c15_init.c", entry="h_init_variant", props={"C15": "tag", "C16": "tag"},
             dfcc=False, add_library=False, defines=['UNIT_FILE="%s"' % _f, "VARIANT_FLAGS=" + _VFLAGS[_arch], "VARIANT_INIT=init_mb_mgr_%s_internal" % _arch],
             checks=("--no-standard-checks",), unwind=3, timeout=900, tier=_tier, probes=["flush_burst handler byte"],
             functions=["init_mb_mgr_%s_internal" % _arch], sources=["lib/" + _f],
             trusted=["ooo_mgr_*_reset calls not modelled here (C15 reset units)"], slice="arbitrary handler byte, both reset values, all prior contents"))


# ---------------------------------------------------------------- C02 (SHA framing)
SLICES["C02"] = ("SHA-1/224/256/384/512 one-shot wrappers of every variant (sha_generic): FIPS 180-4 padding, length field, block count, initial hash value, "
                 "big-endian truncated digest, over an uninterpreted compression function")
ASSUMPTIONS["C02"] = ["compression functions (NASM) are uninterpreted; HMAC/CMAC/XCBC/ZUC/SNOW3G/KASUMI/Poly1305/CRC kernels are assembly",
                      "message length bounded to 2*block+17 bytes in the units labelled bounded; the *_any_len units have no length bound but leave the initial-hash-value clause to the bounded ones"]
_SHA_FILES = [("sse_t1/sha_sse.c", "sse", [1, 224, 256, 384, 512], "quick"), ("avx2_t1/sha_avx2.c", "avx2", [1, 224, 256, 384, 512], "quick"),
              ("avx512_t1/sha_avx512.c", "avx512", [1, 224, 256, 384, 512], "quick"), ("sse_t2/sha_ni_sse.c", "sse_shani", [1, 224, 256], "quick"),
              ("avx2_t4/sha_ni_avx2.c", "ni_avx2", [384, 512], "thorough")]
for _f, _sfx, _types, _tier in _SHA_FILES:
    for _t in _types:
        _defs = ['SHA_FILE="%s"' % _f, "SFX=" + _sfx] + ([] if len(_types) == 5 else ["ONLY_TYPES", "HAVE_%d" % _t])
        add(Unit(name="c02_sha%d_%s" % (_t, _sfx), harness="c02_sha.c", entry="h_sha%d" % _t,
                 props={"C02": "tag", "C06": "tag", "C07": "tag", "C13": "tag", "C14": "tag", "C08": "tag"}, dfcc=False,
                 defines=_defs + (["SMX_NI"] if "avx2_t4" in _f else []), unwind=140, timeout=900, tier=_tier, probes=["just overflows"],
                 functions=["sha%d_%s" % (_t, _sfx), "sha_generic", "sha_generic_init", "sha_generic_write_digest", "sha_generic_one_block"],
                 sources=["lib/" + _f, "lib/include/sha_generic.h"], trusted=["one-block compression kernels (NASM) uninterpreted", "force_memset_zero modelled as memset"],
                 bounded="message length 0..2*block+17 bytes (all contents, all residues incl. 55/56/64 and 111/112/128)",
                 slice="FIPS 180-4 framing of sha%d on %s" % (_t, _sfx)))
    for _t in _types:
        _defs = ['SHA_FILE="%s"' % _f, "SFX=" + _sfx, "SHA_UNBOUNDED"] + ([] if len(_types) == 5 else ["ONLY_TYPES", "HAVE_%d" % _t])
        add(Unit(name="c02_sha%d_%s_any_len" % (_t, _sfx), harness="c02_sha.c", entry="h_sha%d" % _t, loopgen="c02_sha_generic",
                 props={"C02": "tag", "C06": "tag", "C07": "tag", "C08": "tag"}, dfcc=False,
                 defines=_defs + (["SMX_NI"] if "avx2_t4" in _f else []), unwind=140, timeout=900, tier=("quick" if _sfx == "sse" else "thorough"),
                 checks=("--no-standard-checks",), probes=["1000-block message"], min_obligations=8,
                 functions=["sha%d_%s" % (_t, _sfx), "sha_generic", "sha_generic_write_digest", "sha_generic_one_block"],
                 sources=["lib/" + _f, "lib/include/sha_generic.h"],
                 trusted=["one-block compression kernels (NASM): checking contract models (arbitrary chaining value)", "force_memset_zero modelled as memset",
                          "message limited to 2^32 bytes only to keep the harness allocation finite (the block loop is closed by an invariant)"],
                 slice="FIPS 180-4 framing of sha%d on %s for messages of ANY length (loop contract on the full-block loop; padding blocks by ghost byte)" % (_t, _sfx)))
    if len(_types) == 5:
        add(Unit(name="c02_sha_null_%s" % _sfx, harness="c02_sha.c", entry="h_sha_null", props={"C12": "tag"}, dfcc=False,
                 defines=['SHA_FILE="%s"' % _f, "SFX=" + _sfx], unwind=140, timeout=600, tier=_tier, probes=[],
                 functions=["sha*_%s NULL checks" % _sfx], sources=["lib/" + _f, "lib/include/sha_generic.h"]))


# ---------------------------------------------------------------- C06 binding layer (dispatcher C code + generated kernel stubs)
def _bind_units():
    for arch, (f, tier) in ARCHS.items():
        if arch in ("avx512_t1", "avx2_t1"):
            tier = "quick"   # the type-1 AVX units carry their own C glue (DOCSIS CRC32 decrypt paths) not shared with the quick trio
        rm = ["submit_cipher_burst_and_check", "submit_hash_burst_and_check", "submit_aead_burst_and_check", "submit_burst_and_check"] + \
             [unit_macro(arch, m) for m in ("FLUSH_BURST", "GET_NEXT_BURST", "FLUSH_JOB", "SUBMIT_JOB", "SUBMIT_JOB_NOCHECK")]
        add(Unit(name="c06_bind_cipher_%s" % arch, harness="c06_binding.c", entry="h_bind_cipher",
                 props={"C06": "tag", "C14": "tag", "C04": "tag", "C08": "tag"}, dfcc=False, add_library=False, autostub=True,
                 remove_bodies=rm, stub_src=["stubs/empty.c"],
                 defines=['UNIT_FILE="%s"' % f, "VARIANT_INIT=init_mb_mgr_%s_internal" % arch],
                 checks=("--no-standard-checks",), unwind=10, timeout=1500, tier=tier,
                 probes=["DOCSIS decrypt with a generic", "failing custom cipher"],
                 functions=[unit_macro(arch, "SUBMIT_JOB_CIPHER_ENC"), unit_macro(arch, "SUBMIT_JOB_CIPHER_DEC"), "docsis/custom/GCM/SNOW-V/CTR/CFB/ECB glue of " + arch],
                 trusted=["every function without a C body: generated logging stub classified by symbol name (vlib/stubgen.py)",
                          "SM4-GCM glue excluded from this unit"],
                 sources=["lib/" + f, "lib/include/mb_mgr_job_api.h", "lib/include/job_api_docsis.h", "lib/include/docsis_common.h"],
                 slice="cipher stage of every accepted job: kernels called, status added, descriptor frame (variant %s)" % arch))
        add(Unit(name="c06_bind_hash_%s" % arch, harness="c06_binding.c", entry="h_bind_hash",
                 props={"C06": "tag", "C14": "tag", "C04": "tag"}, dfcc=False, add_library=False, autostub=True,
                 remove_bodies=rm, stub_src=["stubs/empty.c"],
                 defines=['UNIT_FILE="%s"' % f, "VARIANT_INIT=init_mb_mgr_%s_internal" % arch],
                 checks=("--no-standard-checks",), unwind=10, timeout=1500, tier=tier,
                 probes=["CMAC bit-length hash stage", "failing custom hash"],
                 functions=["SUBMIT_JOB_HASH_EX", "CRC/GMAC/GHASH/CMAC glue of " + arch],
                 trusted=["every function without a C body: generated logging stub classified by symbol name (vlib/stubgen.py)"],
                 sources=["lib/" + f, "lib/include/mb_mgr_job_api.h"],
                 slice="hash stage of every accepted job: kernels called, status added, descriptor frame (variant %s)" % arch))
        add(Unit(name="c04_bind_flush_%s" % arch, harness="c06_binding.c", entry="h_bind_flush",
                 props={"C04": "tag", "C06": "tag", "C14": "tag"}, dfcc=False, add_library=False, autostub=True,
                 remove_bodies=rm, stub_src=["stubs/empty.c"],
                 defines=['UNIT_FILE="%s"' % f, "VARIANT_INIT=init_mb_mgr_%s_internal" % arch],
                 checks=("--no-standard-checks",), unwind=10, timeout=1500, tier=tier, probes=["custom-cipher job already ciphered"],
                 functions=[unit_macro(arch, "FLUSH_JOB_CIPHER_ENC"), "FLUSH_JOB_CIPHER_DEC", "FLUSH_JOB_HASH_EX"],
                 trusted=["every function without a C body: generated logging stub / abstract lane model (vlib/stubgen.py)"],
                 sources=["lib/" + f, "lib/include/mb_mgr_job_api.h"],
                 slice="flush of either stage for every accepted queued job (variant %s)" % arch))


_bind_units()


# ---------------------------------------------------------------- C04 stage sequencing
SLICES["C04"] = ("stage-level independence in C: a flush never re-offers a finished stage, each stage adds exactly its bit, hands back the submitted job / a parked job / nothing; "
                 "lane isolation inside the NASM out-of-order managers is not decidable here")
ASSUMPTIONS["C04"] = ["NASM out-of-order managers: abstract lane model (a manager hands back only jobs parked in it, with exactly its stage added)",
                      "the whole-chain sequencing harness (harness/c04_chain.c: submit_new_job/RESUBMIT_JOB/complete_job over a 2-manager lane model) does not finish within 20 min and is NOT registered"]

# ---------------------------------------------------------------- C01 / C11 DES family in C
SLICES["C01"] = ("KASUMI f8 chaining (any length, loop contract); DES/3DES-CBC chaining for any length (loop contracts); DES-CBC, 3DES-CBC, DOCSIS-DES (the C implementation bound by all SSE and AVX2 variants): block function = FIPS 46-3 for all blocks/round keys/directions; "
                 "CBC/E-D-E/residual-CFB chaining over an uninterpreted block function (bounded number of blocks); every other cipher is NASM")
ASSUMPTIONS["C01"] = ["constant-time lookup primitives and memcpy_fn_sse_128 (NASM) modelled by their documented effect",
                      "AES*, ChaCha20, ZUC, SNOW3G, KASUMI, SNOW-V, SM4 kernels are assembly or intrinsics: not decided"]
SLICES["C11"] = "DES key schedule = FIPS 46-3 PC-1 / shifts / PC-2 for all 2^64 keys in the layout the block function consumes; NULL handling"
ASSUMPTIONS["C11"] = ["AES/SM4/KASUMI/SNOW3G key schedules and hash-key precomputation are assembly: not decided"]
_DES_TRUST = ["lookup_32bit_sse (NASM) = table[idx]", "memcpy_fn_sse_128 (NASM) copies 128 bytes", "force_memset_zero (NASM) zeroes"]
add(Unit(name="c11_des_key_schedule", harness="c01_des.c", entry="h_des_key_schedule", props={"C11": "tag", "C13": "tag", "C14": "tag"}, dfcc=False,
         unwind=66, timeout=900, checks=("--no-standard-checks",), probes=["last round key watched"], functions=["des_key_schedule", "permute_64b", "rotate28", "expand_8x6_to_8x8", "load64_reflect"],
         sources=["lib/x86_64/des_key.c", "lib/include/des_utils.h"], trusted=_DES_TRUST, slice="all 2^64 keys, arbitrary round (ghost index)"))
add(Unit(name="c11_des_key_schedule_null", harness="c01_des.c", entry="h_des_key_schedule_null", props={"C12": "tag"}, dfcc=False,
         unwind=66, timeout=300, checks=("--no-standard-checks",), probes=[], functions=["des_key_schedule"], sources=["lib/x86_64/des_key.c"]))
add(Unit(name="c01_des_block", harness="c01_des.c", entry="h_des_block", props={"C01": "tag", "C13": "tag", "C19": "tag"}, dfcc=False,
         unwind=66, timeout=2400, mem_gb=24, checks=("--no-standard-checks",), probes=["encrypt direction reachable"],
         functions=["enc_dec_1", "fRK", "e_phase", "ip_z", "fp_z", "permute_operation"], sources=["lib/x86_64/des_basic.c"], trusted=_DES_TRUST, weight=2,
         slice="all 2^64 blocks x all 16x48-bit round keys x both directions"))
for _e, _fns in (("h_des_cbc", ["des_enc_cbc_basic", "des_dec_cbc_basic"]), ("h_des3_cbc", ["des3_enc_cbc_basic", "des3_dec_cbc_basic"]),
                 ("h_docsis_des", ["docsis_des_enc_basic", "docsis_des_dec_basic", "cfb_one_basic"])):
    add(Unit(name="c01_" + _e[2:] + "_5blk", harness="c01_des.c", entry=_e, props={"C01": "tag", "C03": "tag", "C07": "tag", "C14": "tag"}, dfcc=False,
             defines=["CHAIN_UNIT", "MAXB=5"], replace_calls=[("enc_dec_1", "model_enc_dec_1")], unwind=66, timeout=3000, mem_gb=24, checks=("--no-standard-checks",),
             probes=["longest in-place message"], functions=_fns, sources=["lib/x86_64/des_basic.c"], tier="thorough",
             trusted=["enc_dec_1 replaced by an uninterpreted function of (block, schedule, direction); interpreted by unit c01_des_block"] + _DES_TRUST,
             bounded="message length 0..47 bytes (up to 5 blocks + residue); all contents, IVs, in-place and out-of-place",
             slice="chaining and residual termination, longer messages"))
    add(Unit(name="c01_" + _e[2:], harness="c01_des.c", entry=_e, props={"C01": "tag", "C03": "tag", "C07": "tag", "C14": "tag"}, dfcc=False,
             defines=["CHAIN_UNIT"], replace_calls=[("enc_dec_1", "model_enc_dec_1")], unwind=66, timeout=900, checks=("--no-standard-checks",),
             probes=["longest in-place message"], functions=_fns, sources=["lib/x86_64/des_basic.c"],
             trusted=["enc_dec_1 replaced by an uninterpreted function of (block, schedule, direction); interpreted by unit c01_des_block"] + _DES_TRUST,
             bounded="message length 0..31 bytes (up to 3 blocks + residue); all contents, IVs, in-place and out-of-place",
             slice="chaining and residual termination"))

add(Unit(name="c11_iv_gen", harness="c11_iv.c", entry="h_iv_gen", props={"C11": "tag", "C12": "tag", "C07": "tag"}, dfcc=False, unwind=26, timeout=600,
         checks=("--bounds-check", "--pointer-check"), probes=["EIA3 direction byte 14"],
         functions=["zuc_eea3_iv_gen", "zuc_eia3_iv_gen", "snow3g_f8_iv_gen", "snow3g_f9_iv_gen", "kasumi_f8_iv_gen", "kasumi_f9_iv_gen"],
         sources=["lib/x86_64/zuc_iv.c", "lib/x86_64/snow3g_iv.c", "lib/x86_64/kasumi_iv.c"], trusted=["memset/memcpy (CBMC models)"],
         slice="all count/bearer/direction/fresh values, arbitrary byte of the buffer"))
add(Unit(name="c11_iv_gen_null", harness="c11_iv.c", entry="h_iv_gen_null", props={"C12": "tag"}, dfcc=False, unwind=26, timeout=300, probes=[],
         functions=["*_iv_gen NULL checks"], sources=["lib/x86_64/zuc_iv.c", "lib/x86_64/snow3g_iv.c", "lib/x86_64/kasumi_iv.c"]))

add(Unit(name="c11_hmac_ipad_opad", harness="c11_hmac.c", entry="h_hmac_ipad_opad", props={"C11": "tag", "C12": "tag", "C13": "tag", "C14": "tag"}, dfcc=False,
         unwind=165, timeout=900, checks=("--bounds-check", "--pointer-check"), probes=["over-long SHA-384 key"], functions=["imb_hmac_ipad_opad"],
         sources=["lib/x86_64/hmac_ipad_opad.c"], trusted=["hash entry points reached through IMB_MGR handlers: logging models", "safe_memcpy/imb_clear_mem (NASM) modelled"],
         bounded="key length 0..160 bytes (every block size, the over-long branch and its boundary)", slice="RFC 2104 key preparation"))
add(Unit(name="c11_hmac_ipad_opad_null", harness="c11_hmac.c", entry="h_hmac_ipad_opad_null", props={"C12": "tag"}, dfcc=False, unwind=165, timeout=300, probes=[],
         functions=["imb_hmac_ipad_opad NULL checks"], sources=["lib/x86_64/hmac_ipad_opad.c"]))


# ---------------------------------------------------------------- C10 / C03 ChaCha20-Poly1305 segmentation
SLICES["C10"] = ("ChaCha20-Poly1305 SGL/direct update, finalize and job-API complete: representation invariant => the Poly1305 input stream is independent of the segmentation; AES-GCM SGL job dispatch: IMB_SGL_ALL == INIT/UPDATE*/COMPLETE primitive sequence for any segment list")
ASSUMPTIONS["C10"] = ["ChaCha20 key-stream continuity across segments (remain_ks_bytes/last_ks) lives in the NASM kernels: assumed", "GCM carry state between update calls (partial block, counter) is assembly: equal primitive sequences => equal bytes is assumed", "CBMC run with --no-simplify on the GCM-SGL unit (its expression simplifier loses the target of a pointer read from a non-first union member of IMB_JOB)"]
SLICES["C03"] = "C glue of ChaCha20-Poly1305 (Poly input order, length block, tag), DOCSIS-DES residual termination; AEAD kernels themselves are NASM"
ASSUMPTIONS["C03"] = ["AES-GCM/CCM/PON/SNOW-V/ChaCha20/Poly1305 kernels are assembly: not decided"]
for _e, _p in (("h_update", "straddling segment"), ("h_finalize", "finalize with pending tail"), ("h_complete", "short final segment")):
    add(Unit(name="c10_chacha_poly_" + _e[2:], harness="c10_chacha.c", entry=_e, props={"C10": "tag", "C03": "tag", "C07": "tag", "C13": "tag"}, dfcc=False,
             unwind=66, timeout=900, checks=("--no-standard-checks",), probes=[_p],
             bounded=("segment length 0..48 bytes per call (any number of calls by induction over the invariant)" if _e != "h_finalize" else None),
             functions=[{"h_update": "update_chacha20_poly1305_direct", "h_finalize": "finalize_chacha20_poly1305_direct", "h_complete": "complete_chacha20_poly1305"}[_e], "poly1305_aead_update", "memcpy_asm", "chacha20_enc_dec_ks"],
             sources=["lib/x86_64/chacha20_poly1305.c"], trusted=["ChaCha20 / Poly1305 / 16-byte copy kernels (NASM): logging models"],
             slice="all context states satisfying the invariant, both directions, in place or not"))

add(Unit(name="c10_gcm_sgl", harness="c10_gcm_sgl.c", entry="h_gcm_sgl", props={"C10": "tag", "C06": "tag", "C14": "tag"}, dfcc=False, loopgen="c10_gcm_sgl",
         defines=["GCM_SGL_MAX_SEGS=1048576"], timeout=900, checks=("--no-standard-checks",), cbmc_flags=("--no-simplify",), probes=["SGL_ALL with 3 segments"],
         min_obligations=10,
         functions=["submit_gcm_sgl_enc", "submit_gcm_sgl_dec"], sources=["lib/include/job_api_gcm.h"],
         trusted=["AES-GCM init/update/finalize primitives (NASM) replaced by checking contract models; equal primitive sequences => equal output is a property of those primitives",
                  "segment count limited to 2^20 only to keep the harness allocation finite (loops closed by invariants, not unwound)"],
         slice="every SGL job form, key size, direction, any number of segments (loop contracts generated per run from the symbol table: vlib/loopgen.py)"))


# ---------------------------------------------------------------- C02/C04/C13 multi-buffer SHA manager in C
_MB = {
  "sha1_ni_x2": dict(file="sse_t2/sha_ni_mb_sse.c", defs=["MB_STATE=MB_MGR_SHA_1_OOO", "MB_ARGS=SHA1_ARGS", "MB_LANES=2", "MB_BLK=64", "MB_LENFIELD=8", "MB_TYPE=1", "MB_WORD=4",
        "MB_DIGEST_BYTES=20", "MB_DIGEST_WORDS_STATE=5", "MB_DIGEST_IDX(lane,w)=(5*(lane)+(w))", "MB_KERNEL=call_sha1_ni_x2_sse_from_c", "MB_RESET=ooo_mgr_sha1_reset",
        "MB_SUBMIT=submit_job_sha1_ni_sse", "MB_FLUSH=flush_job_sha1_ni_sse", "MB_PAD=8", "MB_XBLK=sha1_create_extra_blocks", "MB_STATE_LANES=16"]),
  "sha512_x2": dict(file="sse_t1/sha_mb_sse.c", defs=["MB_STATE=MB_MGR_SHA_512_OOO", "MB_ARGS=SHA512_ARGS", "MB_LANES=2", "MB_BLK=128", "MB_LENFIELD=16", "MB_TYPE=512", "MB_WORD=8",
        "MB_DIGEST_BYTES=64", "MB_DIGEST_WORDS_STATE=8", "MB_DIGEST_IDX(lane,w)=((lane)+(w)*8)", "MB_KERNEL=call_sha512_x2_sse_from_c", "MB_RESET=ooo_mgr_sha512_reset",
        "MB_SUBMIT=submit_job_sha512_sse", "MB_FLUSH=flush_job_sha512_sse", "MB_PAD=16", "MB_XBLK=sha512_create_extra_blocks", "MB_STATE_LANES=8"]),
  "sha384_x2": dict(file="sse_t1/sha_mb_sse.c", defs=["MB_STATE=MB_MGR_SHA_512_OOO", "MB_ARGS=SHA512_ARGS", "MB_LANES=2", "MB_BLK=128", "MB_LENFIELD=16", "MB_TYPE=384", "MB_WORD=8",
        "MB_DIGEST_BYTES=48", "MB_DIGEST_WORDS_STATE=8", "MB_DIGEST_IDX(lane,w)=((lane)+(w)*8)", "MB_KERNEL=call_sha512_x2_sse_from_c", "MB_RESET=ooo_mgr_sha512_reset",
        "MB_SUBMIT=submit_job_sha384_sse", "MB_FLUSH=flush_job_sha384_sse", "MB_PAD=16", "MB_XBLK=sha512_create_extra_blocks", "MB_STATE_LANES=8"]),
}
for _n, _c, _maxlen, _uw, _tier in (("sha1_ni_x2", _MB["sha1_ni_x2"], 70, 6, "quick"), ("sha1_ni_x2", _MB["sha1_ni_x2"], 134, 8, "thorough"),
                                    ):   # the SHA-512/384 2-lane instances (block 128) were not validated within the time budget: not registered
    _blk = int([d for d in _c["defs"] if d.startswith("MB_BLK=")][0][7:])
    _xblk = [d for d in _c["defs"] if d.startswith("MB_XBLK=")][0][8:]
    add(Unit(name="c02_sha_mb_%s_%d" % (_n, _maxlen), harness="c02_sha_mb.c", entry="h_sha_mb", props={"C02": "tag", "C04": "tag", "C13": "tag"},
             dfcc=False, defines=['MB_FILE="%s"' % _c["file"], "MB_MAXLEN=%d" % _maxlen] + _c["defs"], unwind=max(_maxlen + 12, 2 * _blk + 20),
             replace_calls=[(_xblk, "contract_create_extra_blocks")],
             unwindset=["submit_flush_job_sha_1.4:%d" % _uw, "submit_flush_job_sha_256.4:%d" % _uw, "submit_flush_job_sha_512.4:%d" % _uw,
                        "kernel_model.0:9", "kernel_model.1:3", "job_of_lane.0:3", "check_done.0:3"],
             timeout=3600, mem_gb=30, weight=4, checks=("--no-standard-checks",), cbmc_flags=("--max-field-sensitivity-array-size", "63"),
             probes=["short job overtaking"], tier=_tier,
             functions=["submit_flush_job_sha_1/512 (" + _n + ")", "sha_(ni_)mb_generic_init/write_digest", "ooo_mgr_sha*_reset"],
             sources=["lib/include/sha_mb_mgr.h", "lib/" + _c["file"], "lib/x86_64/ooo_mgr_reset.c"],
             trusted=["multi-lane SHA compression kernel (NASM) modelled: consumes nblocks per lane, advances data pointers, leaves arbitrary digest columns",
                      _xblk + " replaced by its contract (proved equal to the real function, all lanes / tails, by units c02_sha_xblk_*)"],
             bounded="history = 2 submits then flush until empty on a 2-lane manager; message lengths 0..%d bytes each, hash offsets 0..8, all contents" % _maxlen,
             slice="lane isolation, padding, digest column and lane bookkeeping of the C SHA manager"))
for _n in ("sha1_ni_x2", "sha512_x2"):
    _c = _MB[_n]
    _blk = int([d for d in _c["defs"] if d.startswith("MB_BLK=")][0][7:])
    _xblk = [d for d in _c["defs"] if d.startswith("MB_XBLK=")][0][8:]
    _nl = int([d for d in _c["defs"] if d.startswith("MB_STATE_LANES=")][0][15:])
    for _l in range(_nl):
        add(Unit(name="c02_sha_xblk_%s_l%d" % (_xblk.split("_")[0], _l), harness="c02_sha_mb.c", entry="h_sha_xblk", props={"C02": "tag", "C04": "tag", "C07": "safety"},
                 dfcc=False, defines=['MB_FILE="%s"' % _c["file"], "MB_UNIT_XBLK", "XBLK_LANE=%d" % _l] + _c["defs"], unwind=2 * _blk + 20, timeout=900, mem_gb=8,
                 probes=["two-extra-block case"], functions=[_xblk, "var_memcpy", "store8_be"], sources=["lib/include/sha_mb_mgr.h", "lib/include/sha_generic.h"],
                 trusted=["memset (CBMC model)"], tier=("quick" if _l in (0, 1, _nl - 1) else "thorough"),
                 slice="the real function against its functional contract on the whole manager, one unit per lane index (all %d lanes in the thorough tier): all tail lengths r < block, one or two extra blocks, all contents; loops are bounded by the block size, fully unwound with unwinding assertions = complete" % _nl))


# ---------------------------------------------------------------- C01 KASUMI f8 (C code shared by all variants)
add(Unit(name="c01_kasumi_f8_chain", harness="c01_kasumi.c", entry="h_kasumi_f8", props={"C01": "tag"}, dfcc=False, loopgen="c01_kasumi_f8",
         defines=["KAS_LOOPCONTRACT"], replace_calls=[("kasumi_1_block", "contract_kasumi_1_block")], unwind=3, timeout=1200, mem_gb=16,
         checks=("--no-standard-checks",), probes=["last block of the longest message"], min_obligations=10,
         functions=["kasumi_f8_1_buffer", "kasumi_f8_1_buffer_sse"], sources=["lib/include/kasumi_internal.h", "lib/sse_t1/kasumi_sse.c"],
         trusted=["kasumi_1_block (KASUMI block function, TS 35.202) replaced by a checking contract model: not decided here"],
         slice="f8 chaining (modifier, BLKCNT, feedback) and block count for every accepted length 1..2500 bytes: loop contract generated per run, no unwinding"))
for _ip in (0, 1):
    add(Unit(name="c01_kasumi_f8_bytes" + ("_inplace" if _ip else ""), harness="c01_kasumi.c", entry="h_kasumi_f8", props={"C01": "tag", "C07": "tag"}, dfcc=False,
             defines=["KAS_MAXB=44"] + (["KAS_INPLACE"] if _ip else []), replace_calls=[("kasumi_1_block", "contract_kasumi_1_block")], unwind=54, timeout=900,
             checks=("--no-standard-checks",), probes=["last block of the longest message"],
             bounded="messages of 1..44 bytes (5 full blocks + every partial last block); chaining for all lengths is unit c01_kasumi_f8_chain",
             functions=["kasumi_f8_1_buffer", "xor_keystrm_rev", "memcpy_keystrm"], sources=["lib/include/kasumi_internal.h", "lib/include/wireless_common.h"],
             trusted=["kasumi_1_block replaced by a checking contract model"],
             slice="output bytes: xor with the own block's keystream, partial last block, nothing at or beyond the length; " + ("in place" if _ip else "separate buffers")))


# ---------------------------------------------------------------- C09 synchronous cipher burst
SLICES["C09"] = SLICES.get("C09", "") + "; synchronous cipher burst (mb_mgr_burst.h) on the real per-variant unit: all jobs completed on return, each job processed once, kernels of the burst's suite (bounded burst size)"
for _arch in ("sse_t1", "avx2_t2", "avx512_t2", "avx2_t1", "avx512_t1", "sse_t2", "sse_t3", "avx2_t3", "avx2_t4"):
    if _arch not in ARCHS:
        continue
    _f = ARCHS[_arch][0]
    _rm = ["submit_hash_burst_and_check", "submit_aead_burst_and_check", "submit_burst_and_check"] + \
          [unit_macro(_arch, m) for m in ("FLUSH_BURST", "GET_NEXT_BURST", "FLUSH_JOB", "SUBMIT_JOB", "SUBMIT_JOB_NOCHECK")]
    add(Unit(name="c09_cipher_burst_%s" % _arch, harness="c09_sync_burst.c", entry="h_cipher_burst",
             props={"C09": "tag", "C05": "tag", "C06": "tag", "C14": "tag", "C12": "tag"}, dfcc=False, add_library=False, autostub=True,
             remove_bodies=_rm, stub_src=["stubs/empty.c"],
             defines=['UNIT_FILE="%s"' % _f, "VARIANT_INIT=init_mb_mgr_%s_internal" % _arch,
                      "SUBMIT_CIPHER_BURST_NOCHECK_FN=%s" % unit_macro(_arch, "SUBMIT_CIPHER_BURST_NOCHECK")],
             checks=("--no-standard-checks",), unwind=10, timeout=1800, tier=("quick" if _arch in ("sse_t1", "avx512_t2") else "thorough"),
             probes=["full CBC-192 encrypt burst", "CTR burst reachable"],
             functions=["submit_cipher_burst_and_check", "submit_aes_{cbc,ctr,ecb,cfb}_burst_* of " + _arch],
             trusted=["every function without a C body: generated stub classified by symbol name (vlib/stubgen.py)",
                      "out-of-order managers behind submit/flush kernels: multi-job lane model in the harness (a flush returns a parked job while one exists)"],
             bounded="burst size 0..3 jobs", sources=["lib/" + _f, "lib/include/mb_mgr_burst.h"],
             slice="synchronous cipher burst, every cipher mode / direction / key size (variant %s)" % _arch))
    _rm2 = ["submit_cipher_burst_and_check", "submit_aead_burst_and_check", "submit_burst_and_check"] + \
           [unit_macro(_arch, m) for m in ("FLUSH_BURST", "GET_NEXT_BURST", "FLUSH_JOB", "SUBMIT_JOB", "SUBMIT_JOB_NOCHECK")]
    add(Unit(name="c09_hash_burst_%s" % _arch, harness="c09_sync_burst.c", entry="h_hash_burst",
             props={"C09": "tag", "C05": "tag", "C06": "tag", "C14": "tag", "C12": "tag"}, dfcc=False, add_library=False, autostub=True,
             remove_bodies=_rm2, stub_src=["stubs/empty.c"],
             defines=['UNIT_FILE="%s"' % _f, "VARIANT_INIT=init_mb_mgr_%s_internal" % _arch],
             checks=("--no-standard-checks",), unwind=10, timeout=1800, tier=("quick" if _arch in ("sse_t1", "avx512_t2") else "thorough"),
             probes=["full HMAC-SHA-384 burst", "CMAC-256 burst reachable"],
             functions=["submit_hash_burst_and_check", "submit_burst_hmac_sha_x", "submit_burst_sha_x", "submit_aes_cmac_burst of " + _arch],
             trusted=["every function without a C body: generated stub classified by symbol name (vlib/stubgen.py)",
                      "out-of-order managers behind submit/flush kernels: multi-job lane model in the harness (a flush returns a parked job while one exists)"],
             bounded="burst size 0..3 jobs", sources=["lib/" + _f, "lib/include/mb_mgr_burst.h"],
             slice="synchronous hash burst, every hash algorithm (variant %s)" % _arch))


# ---------------------------------------------------------------- C01 CBC drivers, any length (loop contracts)
for _k, _fn in enumerate(("des_enc_cbc_basic", "des_dec_cbc_basic", "des3_enc_cbc_basic", "des3_dec_cbc_basic")):
    add(Unit(name="c01_cbc_any_len_" + _fn.replace("_cbc_basic", ""), harness="c01_cbc_unbounded.c", entry="h_cbc_unbounded", props={"C01": "tag", "C07": "tag", "C14": "tag"},
             dfcc=False, loopgen="c01_cbc_%d" % _k, defines=["CBC_FN=%d" % _k], replace_calls=[("enc_dec_1", "contract_enc_dec_1")], unwind=3, timeout=1200, mem_gb=16,
             checks=("--no-standard-checks",), probes=["1000-block in-place message"], min_obligations=10,
             functions=[_fn], sources=["lib/x86_64/des_basic.c"],
             trusted=["enc_dec_1 replaced by a checking contract model (arbitrary result); its equality with FIPS 46-3 is unit c01_des_block",
                      "message limited to 2^20 blocks only to keep the harness arrays finite (the loop is closed by an invariant, not unwound)"],
             slice="CBC chaining / TDEA composition for every message length and every block index, in place or not (loop contract generated per run)"))


# ---------------------------------------------------------------- C02/C07 KASUMI f9 (C code shared by all variants)
add(Unit(name="c02_kasumi_f9", harness="c02_kasumi_f9.c", entry="h_kasumi_f9", props={"C02": "tag", "C07": "tag+safety"}, dfcc=False, loopgen="c02_kasumi_f9",
         replace_calls=[("kasumi_1_block", "contract_kasumi_1_block")], unwind=10, timeout=1200, mem_gb=16,
         checks=("--no-standard-checks", "--pointer-check", "--bounds-check"), probes=["1003-byte message"], min_obligations=10,
         functions=["kasumi_f9_1_buffer", "kasumi_f9_1_buffer_sse"], sources=["lib/include/kasumi_internal.h", "lib/sse_t1/kasumi_sse.c"],
         trusted=["kasumi_1_block (TS 35.202) replaced by a checking contract model", "safe_memcpy (NASM) modelled as a byte copy of exactly the requested size"],
         slice="f9 chaining, tail handling, MAC extraction for every accepted length (loop contract); reads confined to the message object (pointer checks on)"))
