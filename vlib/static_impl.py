"""Registered static facts. (filled in as properties are built)"""
from vlib.static_checks import static  # noqa: F401

import os, re, glob, subprocess, tempfile, shutil, concurrent.futures as cf
from vlib.core import REPO, BASE_DEFS, BASE_INCS

# writable objects of static storage duration the library is known to have (anything else fails the census)
ALLOWED_GLOBALS = {
    "imb_errno": "process-wide mirror of the last error (documented fallback of imb_get_errno)",
    "cpuid_1_0": "cached CPUID leaf", "cpuid_7_0": "cached CPUID leaf", "cpuid_7_1": "cached CPUID leaf",
    "imb_set_session::1::counter": "session id generator (feeds session_id only)",
    "kasumiWrapperArray": "KASUMI dispatch table of function pointers in kasumi_internal.h: not const-qualified but never assigned",
}


def _symbols(cfile, wd):
    out = os.path.join(wd, os.path.basename(cfile) + ".gb")
    extra = []
    p = subprocess.run(["goto-cc", "-std=c99"] + BASE_DEFS + BASE_INCS + extra + ["-c", cfile, "-o", out], stdout=subprocess.PIPE, stderr=subprocess.PIPE)
    if p.returncode != 0:
        return cfile, None, (p.stdout + p.stderr).decode(errors="replace")[-300:]
    q = subprocess.run(["goto-instrument", "--show-symbol-table", out], stdout=subprocess.PIPE, stderr=subprocess.DEVNULL)
    syms, cur = [], {}
    for ln in q.stdout.decode(errors="replace").splitlines():
        if ln.startswith("Symbol......: "):
            if cur:
                syms.append(cur)
            cur = {"name": ln[14:].strip()}
        elif ln.startswith("Type........: "):
            cur["type"] = ln[14:].strip()
        elif ln.startswith("Flags.......: "):
            cur["flags"] = ln[14:].strip()
        elif ln.startswith("Location....: "):
            cur["loc"] = ln[14:].strip()
    if cur:
        syms.append(cur)
    return cfile, syms, ""


@static("c17_global_census", ["C17"])
def c17_global_census():
    files = sorted(glob.glob(os.path.join(REPO, "lib", "*", "*.c")))
    wd = tempfile.mkdtemp(prefix="verif_c17_")
    viol, samples, facts, errs = [], [], 0, []
    try:
        with cf.ThreadPoolExecutor(max_workers=14) as ex:
            res = list(ex.map(lambda f: _symbols(f, wd), files))
    finally:
        shutil.rmtree(wd, ignore_errors=True)
    seen = {}
    for cfile, syms, err in res:
        if syms is None:
            errs.append("%s: %s" % (cfile, err))
            continue
        for s in syms:
            fl = s.get("flags", "")
            ty = s.get("type", "")
            loc = s.get("loc", "")
            if "static_lifetime" not in fl or "lvalue" not in fl:
                continue
            if "/repo/lib" not in loc and REPO + "/lib" not in loc:
                continue
            if ty.startswith("const ") or " const" in ty.split("[")[0] or "(" in ty:   # const data, functions
                continue
            if s["name"].startswith("__CPROVER") or "::$" in s["name"] or s["name"].endswith("$link1"):
                continue
            base = re.sub(r"\$link\d+$", "", s["name"])
            seen.setdefault(base, set()).add(os.path.relpath(cfile, REPO))
    for name, where in sorted(seen.items()):
        facts += 1
        if name in ALLOWED_GLOBALS:
            if len(samples) < 4:
                samples.append({"unit": "c17_global_census", "obligation": "writable global " + name, "description": ALLOWED_GLOBALS[name], "at": ", ".join(sorted(where))[:120], "status": "SUCCESS"})
        else:
            viol.append({"name": "c17_global_census." + name, "description": "[C17] writable object of static storage duration not in the census: %s (%s)" % (name, ", ".join(sorted(where))[:200]),
                         "loc": ", ".join(sorted(where))[:200], "detail": "a new process-wide mutable object can couple independent managers / threads"})
    if errs:
        raise RuntimeError("census could not compile: " + "; ".join(errs[:3]))
    facts = max(facts, 1)
    return {"facts": facts, "violations": viol, "samples": samples,
            "trusted": ["census reads goto-cc symbol tables of all %d C translation units of lib/ (NASM data sections are not covered)" % len(files)]}
