"""Registered static facts. (filled in as properties are built)"""
from vlib.static_checks import static  # noqa: F401
