"""Mechanical stubs for every function without a C body in a unit (NASM kernels, other TUs).

Each run: list the undefined functions of the freshly compiled goto binary, take their C types
from the symbol table, classify each BY NAME (rules below) and emit a logging stub:
  - appends (kernel id) to the ghost event log g_ev[]
  - functions returning IMB_JOB*: abstract lane model (NULL, the submitted job or the parked
    ghost job g_parked; exactly the manager's stage bit is OR-ed into the returned job's status)
  - everything else: nondet return, no memory effect (what the kernel writes into the caller's
    buffers is not modelled here; the ranges handed to it are what the C code is responsible for)
A name no rule classifies aborts the unit (exit 2 upstream), never a violation.
"""
import re, subprocess, os

# (regex on symbol name) -> dict(c=[cipher modes], h=[hash algs], key=bits or None, dir='enc'|'dec'|None, stage='C'|'A'|None)
# 'c'/'h' list the suites a kernel may legitimately serve.  {K} in a regex captures the key bits.
K = r"(?P<k>128|192|256)"
RULES = [
    # --- AES-CBC / CBCS
    (r"^(submit|flush)_job_aes" + K + r"_enc_(x\d+_)?(sse|avx|avx2|avx512|vaes_avx512)", dict(c=["CBC", "DOCSIS_SEC_BPI"], dir="enc", stage="C")),
    (r"^(submit|flush)_job_aes" + K + r"_enc_(sse|avx|vaes)", dict(c=["CBC", "DOCSIS_SEC_BPI"], dir="enc", stage="C")),
    (r"^(submit|flush)_job_aes" + K + r"_cbc_enc_", dict(c=["CBC", "DOCSIS_SEC_BPI"], dir="enc", stage="C")),
    (r"^aes_cbc_dec_" + K + r"_", dict(c=["CBC", "DOCSIS_SEC_BPI"], dir="dec")),
    (r"^aes_docsis" + K + r"_dec_crc32_", dict(c=["DOCSIS_SEC_BPI"], h=["DOCSIS_CRC32"], dir="dec", stage="C")),
    (r"^aes_cfb_dec_" + K + r"_", dict(c=["CFB"], dir="dec")),
    (r"^(submit|flush)_job_aes" + K + r"_cfb_enc_", dict(c=["CFB"], dir="enc", stage="C")),
    (r"^(submit|flush)_job_aes128_cbcs_1_9_enc_", dict(c=["CBCS_1_9"], key=128, dir="enc", stage="C")),
    (r"^aes_cbcs_1_9_dec_128_", dict(c=["CBCS_1_9"], key=128, dir="dec")),
    # --- AES-CTR / CCM / ECB / CFB
    (r"^aes_cntr_bit_" + K + r"_", dict(c=["CNTR_BITLEN"])),
    (r"^aes_cntr_ccm_" + K + r"_", dict(c=["CCM"], h=["AES_CCM"], stage="C")),
    (r"^aes_cntr_" + K + r"_", dict(c=["CNTR"])),
    (r"^aes_ecb_enc_" + K + r"_", dict(c=["ECB"], dir="enc")),
    (r"^aes_ecb_dec_" + K + r"_", dict(c=["ECB"], dir="dec")),
    (r"^aes_cfb_" + K + r"_enc_", dict(c=["CFB"], dir="enc")),
    (r"^aes_cfb_" + K + r"_dec_", dict(c=["CFB"], dir="dec")),
    (r"^(submit|flush)_job_aes_cfb_" + K + r"_enc_", dict(c=["CFB"], dir="enc", stage="C")),
    (r"^aes_cfb_" + K + r"_one_", dict(c=["DOCSIS_SEC_BPI"])),
    # --- GCM
    (r"^aes_gcm_(enc|dec)_" + K + r"_finalize_", dict(c=["GCM", "GCM_SGL"], h=["AES_GMAC", "GCM_SGL"])),  # tag finalisation is direction-independent
    (r"^aes_gcm_enc_" + K + r"(_update)?_", dict(c=["GCM", "GCM_SGL"], h=["AES_GMAC", "GCM_SGL"], dir="enc")),
    (r"^aes_gcm_dec_" + K + r"(_update)?_", dict(c=["GCM", "GCM_SGL"], h=["AES_GMAC", "GCM_SGL"], dir="dec")),
    (r"^aes_gcm_enc_var_iv_" + K + r"_", dict(c=["GCM"], h=["AES_GMAC"], dir="enc", stage="B")),
    (r"^aes_gcm_dec_var_iv_" + K + r"_", dict(c=["GCM"], h=["AES_GMAC"], dir="dec", stage="B")),
    (r"^aes_gcm_init(_var_iv)?_" + K + r"_", dict(c=["GCM_SGL"], h=["GCM_SGL"])),
    (r"^imb_aes_gmac_(init|update|finalize)_" + K + r"_", dict(h=["AES_GMAC_{k}"])),
    (r"^ghash_pre_", dict(c=["SNOW_V_AEAD"], h=["GHASH", "SNOW_V_AEAD"])),
    (r"^ghash_(sse|avx|vaes)", dict(c=["SNOW_V_AEAD"], h=["GHASH", "SNOW_V_AEAD"])),
    # --- DOCSIS / DES / PON
    (r"^(submit|flush)_job_aes_docsis" + K + r"_(enc|dec)_crc32_", dict(c=["DOCSIS_SEC_BPI"], h=["DOCSIS_CRC32"], stage="C")),
    (r"^(submit|flush)_job_aes_docsis" + K + r"_enc_", dict(c=["DOCSIS_SEC_BPI"], dir="enc", stage="C")),
    (r"^(submit|flush)_job_aes_docsis" + K + r"_dec_", dict(c=["DOCSIS_SEC_BPI"], dir="dec", stage="C")),
    (r"^ethernet_fcs_", dict(c=["DOCSIS_SEC_BPI"], h=["CRC32_ETHERNET_FCS", "DOCSIS_CRC32"])),
    (r"^des_enc_cbc_basic$", dict(c=["DES"], dir="enc")), (r"^des_dec_cbc_basic$", dict(c=["DES"], dir="dec")),
    (r"^des3_enc_cbc_basic$", dict(c=["DES3"], dir="enc")), (r"^des3_dec_cbc_basic$", dict(c=["DES3"], dir="dec")),
    (r"^docsis_des_enc_basic$", dict(c=["DOCSIS_DES"], dir="enc")), (r"^docsis_des_dec_basic$", dict(c=["DOCSIS_DES"], dir="dec")),
    (r"^(submit|flush)_job_des_cbc_enc_", dict(c=["DES"], dir="enc", stage="C")), (r"^(submit|flush)_job_des_cbc_dec_", dict(c=["DES"], dir="dec", stage="C")),
    (r"^(submit|flush)_job_3des_cbc_enc_", dict(c=["DES3"], dir="enc", stage="C")), (r"^(submit|flush)_job_3des_cbc_dec_", dict(c=["DES3"], dir="dec", stage="C")),
    (r"^(submit|flush)_job_docsis_des_enc_", dict(c=["DOCSIS_DES"], dir="enc", stage="C")), (r"^(submit|flush)_job_docsis_des_dec_", dict(c=["DOCSIS_DES"], dir="dec", stage="C")),
    (r"^submit_job_pon_enc_", dict(c=["PON_AES_CNTR"], h=["PON_CRC_BIP"], dir="enc", stage="B")),
    (r"^submit_job_pon_dec_", dict(c=["PON_AES_CNTR"], h=["PON_CRC_BIP"], dir="dec", stage="B")),
    # --- stream ciphers
    (r"^(submit|flush)_job_zuc256_eea3_", dict(c=["ZUC_EEA3"], key=256, stage="C")),
    (r"^(submit|flush)_job_zuc_eea3_", dict(c=["ZUC_EEA3"], key=128, stage="C")),
    (r"^(submit|flush)_job_zuc256_eia3_", dict(h=["ZUC256_EIA3_BITLEN"], stage="A")),
    (r"^(submit|flush)_job_zuc_eia3_", dict(h=["ZUC_EIA3_BITLEN"], stage="A")),
    (r"^(submit|flush)_job_snow3g_uea2_", dict(c=["SNOW3G_UEA2_BITLEN"], stage="C")),
    (r"^(submit|flush)_job_snow3g_uia2_", dict(h=["SNOW3G_UIA2_BITLEN"], stage="A")),
    (r"^snow3g_f8_", dict(c=["SNOW3G_UEA2_BITLEN"])), (r"^snow3g_f9_", dict(h=["SNOW3G_UIA2_BITLEN"])),
    (r"^kasumi_f8_", dict(c=["KASUMI_UEA1_BITLEN"])), (r"^kasumi_f9_", dict(h=["KASUMI_UIA1"])),
    (r"^submit_job_chacha20_enc_dec_", dict(c=["CHACHA20"], stage="C")),
    (r"^aead_chacha20_poly1305_sgl_", dict(c=["CHACHA20_POLY1305_SGL"], h=["CHACHA20_POLY1305_SGL"], stage="B")),
    (r"^aead_chacha20_poly1305_", dict(c=["CHACHA20_POLY1305"], h=["CHACHA20_POLY1305"], stage="B")),
    (r"^snow_v_aead_init_", dict(c=["SNOW_V_AEAD"], stage="C")), (r"^snow_v_(sse|avx)", dict(c=["SNOW_V", "SNOW_V_AEAD"], stage="C")),
    (r"^sm4_ecb_", dict(c=["SM4_ECB"])), (r"^sm4_cbc_enc_", dict(c=["SM4_CBC"], dir="enc")), (r"^sm4_cbc_dec_", dict(c=["SM4_CBC"], dir="dec")),
    (r"^sm4_ctr_", dict(c=["SM4_CNTR"])), (r"^sm4_gcm_", dict(c=["SM4_GCM"], h=["SM4_GCM"])), (r"^imb_sm4_gcm", dict(c=["SM4_GCM"], h=["SM4_GCM"])),
    # --- hashes / MACs
    (r"^(submit|flush)_job_hmac_sha_224_", dict(h=["HMAC_SHA_224"], stage="A")), (r"^(submit|flush)_job_hmac_sha_256_", dict(h=["HMAC_SHA_256"], stage="A")),
    (r"^(submit|flush)_job_hmac_sha_384_", dict(h=["HMAC_SHA_384"], stage="A")), (r"^(submit|flush)_job_hmac_sha_512_", dict(h=["HMAC_SHA_512"], stage="A")),
    (r"^(submit|flush)_job_hmac_md5_", dict(h=["MD5"], stage="A")),
    (r"^(submit|flush)_job_hmac_(ni_)?(sse|avx|avx2|avx512)", dict(h=["HMAC_SHA_1"], stage="A")),
    (r"^(submit|flush)_job_hmac_sha_224_ni_", dict(h=["HMAC_SHA_224"], stage="A")), (r"^(submit|flush)_job_hmac_sha_256_ni_", dict(h=["HMAC_SHA_256"], stage="A")),
    (r"^(submit|flush)_job_aes_xcbc_", dict(h=["AES_XCBC"], stage="A")),
    (r"^(submit|flush)_job_aes128_ccm_auth_", dict(h=["AES_CCM"], key=128, stage="A")), (r"^(submit|flush)_job_aes256_ccm_auth_", dict(h=["AES_CCM"], key=256, stage="A")),
    (r"^(submit|flush)_job_aes128_cmac_auth_", dict(h=["AES_CMAC", "AES_CMAC_BITLEN"], stage="A")), (r"^(submit|flush)_job_aes256_cmac_auth_", dict(h=["AES_CMAC_256"], stage="A")),
    (r"^(submit|flush)_job_sha1_", dict(h=["SHA_1"], stage="A")), (r"^(submit|flush)_job_sha224_", dict(h=["SHA_224"], stage="A")),
    (r"^(submit|flush)_job_sha256_", dict(h=["SHA_256"], stage="A")), (r"^(submit|flush)_job_sha384_", dict(h=["SHA_384"], stage="A")),
    (r"^(submit|flush)_job_sha512_", dict(h=["SHA_512"], stage="A")),
    (r"^sm3_hmac_submit_", dict(h=["HMAC_SM3"], stage="A")), (r"^sm3_msg_submit_", dict(h=["SM3"], stage="A")),
    (r"^poly1305_mac_", dict(h=["POLY1305"])),
    (r"^crc32_sctp_", dict(h=["CRC32_SCTP"])), (r"^crc32_wimax_ofdma_data_", dict(h=["CRC32_WIMAX_OFDMA_DATA"])),
    (r"^crc24_lte_a_", dict(h=["CRC24_LTE_A"])), (r"^crc24_lte_b_", dict(h=["CRC24_LTE_B"])), (r"^crc16_x25_", dict(h=["CRC16_X25"])),
    (r"^crc16_fp_data_", dict(h=["CRC16_FP_DATA"])), (r"^crc11_fp_header_", dict(h=["CRC11_FP_HEADER"])), (r"^crc10_iuup_data_", dict(h=["CRC10_IUUP_DATA"])),
    (r"^crc8_wimax_ofdma_hcs_", dict(h=["CRC8_WIMAX_OFDMA_HCS"])), (r"^crc7_fp_header_", dict(h=["CRC7_FP_HEADER"])), (r"^crc6_iuup_header_", dict(h=["CRC6_IUUP_HEADER"])),
]
# helpers that are no algorithm kernels: never constrain the suite
NEUTRAL = re.compile(r"^(nondet_|malloc|calloc|realloc|free|memalign|strlen|strcmp|strncmp|memmove|memcpy|memset|memcmp|imb_clear_mem|clear_mem|force_memset_zero|safe_memcpy|memcpy_fn_|save_xmms|restore_xmms|"
                     r"clear_scratch_|cpu_feature_|ooo_mgr_.*_reset$|__CPROVER|imb_set_errno|imb_get_errno|strerror|printf|fprintf|abort)")


def classify(name):
    if NEUTRAL.search(name):
        return {"neutral": True}
    for rx, d in RULES:
        m = re.search(rx, name)
        if m:
            out = dict(d)
            gd = m.groupdict()
            if gd.get("k") and "key" not in out:
                out["key"] = int(gd["k"])
            if "h" in out:
                out["h"] = [x.replace("{k}", gd.get("k") or "") for x in out["h"]]
            return out
    return None


def undefined_functions(gb):
    p = subprocess.run(["goto-instrument", "--list-undefined-functions", gb], stdout=subprocess.PIPE, stderr=subprocess.DEVNULL)
    names = [l.strip() for l in p.stdout.decode().splitlines() if l.strip() and not l.startswith("Reading")]
    p = subprocess.run(["goto-instrument", "--show-symbol-table", gb], stdout=subprocess.PIPE, stderr=subprocess.DEVNULL)
    types = {}
    cur = None
    for ln in p.stdout.decode().splitlines():
        if ln.startswith("Symbol......: "):
            cur = ln[14:].strip()
        elif ln.startswith("Type........: ") and cur is not None:
            types[cur] = ln[14:].strip()
    return [(n, types.get(n, "")) for n in names if not n.startswith("__CPROVER")]


def split_params(s):
    out, depth, cur = [], 0, ""
    for ch in s:
        if ch == "(":
            depth += 1
        if ch == ")":
            depth -= 1
        if ch == "," and depth == 0:
            out.append(cur.strip())
            cur = ""
        else:
            cur += ch
    if cur.strip():
        out.append(cur.strip())
    return out


def gen(funcs, skip=()):
    """returns (C text, names list, problems list)"""
    lines = ["/* generated by vlib/stubgen.py on every run - do not edit */",
             "#ifndef EV_MAX\n#define EV_MAX 8\n#endif",
             "unsigned g_ev_n; int g_ev[EV_MAX];",
             "IMB_JOB *g_parked; /* ghost: a job of the same manager submitted earlier and not yet returned */",
             "_Bool nondet_bool(void); int nondet_int(void); unsigned long nondet_ulong(void);",
             "static void ev_log(const int id) { if (g_ev_n < EV_MAX) g_ev[g_ev_n] = id; g_ev_n++; }",
             "#ifdef LANE_MODEL_EXTERN",
             "IMB_JOB *lane_model(IMB_JOB *job, const int bit);   /* the harness supplies its own manager model */",
             "#define LANE_FLUSH_ARG(j) ((IMB_JOB *) 0)           /* flush_*(mgr, job): the job argument is not a submission */",
             "#else",
             "#define LANE_FLUSH_ARG(j) (j)",
             "static IMB_JOB *lane_model(IMB_JOB *job, const int bit) {",
             "        IMB_JOB *r = 0;",
             "        if (nondet_bool()) return 0;",
             "        /* a manager can only hand back a job parked in it: one whose stage is outstanding */",
             "        if (job != 0 && (job->status & bit) == 0 && nondet_bool()) r = job; else r = g_parked;",
             "        if (r != 0 && (r->status & bit) != 0) return 0;",
             "        if (r != 0) r->status |= bit;",
             "        return r; }",
             "#endif"]
    names, problems, info = [], [], []
    for name, typ in funcs:
        if name in skip or NEUTRAL.search(name):
            continue
        cl = classify(name)
        m = re.match(r"^(.*?)\s*\((.*)\)$", typ)
        if not m or "(*" in typ:
            problems.append("cannot parse type of %s: %s" % (name, typ))
            continue
        if cl is None:
            cl = {"unclassified": True, "key": -1, "stage": "C"}
        ret, ps = m.group(1).strip(), split_params(m.group(2))
        if ps == ["void"]:
            ps = []
        decl = ", ".join("%s a%d" % (p, i) if "[" not in p else re.sub(r"\[", " a%d[" % i, p, 1) for i, p in enumerate(ps))
        kid = len(names)
        names.append(name)
        info.append(cl)
        body = ["ev_log(%d);" % kid]
        if re.match(r"^(struct )?IMB_JOB \*$", ret):
            jobarg = None
            for i, p in enumerate(ps):
                if re.match(r"^(struct )?IMB_JOB \*$", p):
                    jobarg = "a%d" % i
            bit = {"C": "IMB_STATUS_COMPLETED_CIPHER", "A": "IMB_STATUS_COMPLETED_AUTH", "B": "IMB_STATUS_COMPLETED"}.get(cl.get("stage"))
            if bit is None:
                bit = "IMB_STATUS_COMPLETED_CIPHER"
                info[-1] = dict(info[-1]); info[-1]["key"] = -1   # reached => [INFRA] obligation fires
            has_mgr = any(re.search(r"MB_MGR_\w+ \*", p) or p.strip() in ("void *", "IMB_MGR *", "struct IMB_MGR *") for p in ps)
            if cl.get("stage") == "B" or (jobarg and not has_mgr) or name.startswith("submit_job_pon") or name.startswith("submit_job_chacha20"):
                # synchronous kernels: always complete and return the job they were given
                body.append("if (%s) %s->status |= %s; return %s;" % (jobarg, jobarg, bit, jobarg))
            else:
                if jobarg and name.startswith("flush_"):
                    body.append("return lane_model(LANE_FLUSH_ARG(%s), %s);" % (jobarg, bit))
                else:
                    body.append("return lane_model(%s, %s);" % (jobarg or "0", bit))
        elif ret == "void":
            # synchronous kernel that completes its stage on the job it is handed (e.g. aes_docsis*_dec_crc32_*:
            # the NASM code ORs IMB_STATUS_COMPLETED_CIPHER into job->status itself)
            jobargs = ["a%d" % i for i, p in enumerate(ps) if re.match(r"^(struct )?IMB_JOB \*$", p)]
            bit = {"C": "IMB_STATUS_COMPLETED_CIPHER", "A": "IMB_STATUS_COMPLETED_AUTH", "B": "IMB_STATUS_COMPLETED"}.get(cl.get("stage"))
            if jobargs and bit:
                body.append("if (%s) %s->status |= %s;" % (jobargs[0], jobargs[0], bit))
        elif "*" in ret:
            body.append("return (%s) 0;" % ret)
        else:
            body.append("return (%s) nondet_ulong();" % ret)
        lines.append("%s %s(%s) { %s }" % (ret, name, decl or "void", " ".join(body)))
    # classification table for the spec side
    lines.append("#define KIND_N %d" % max(1, len(names)))
    lines.append("static const char *const g_kernel_name[KIND_N + 1] = { %s 0 };" % "".join('"%s", ' % n for n in names))
    rows = []
    for cl in info:
        cm = " | ".join("(1ULL << IMB_CIPHER_%s)" % c for c in cl.get("c", [])) or "0"
        hm = " | ".join("(1ULL << IMB_AUTH_%s)" % h for h in cl.get("h", [])) or "0"
        rows.append("{ %s, %s, %d, %d }" % (cm, hm, cl.get("key") or 0, {"enc": 1, "dec": 2}.get(cl.get("dir"), 0)))  # key -1 = unclassified symbol
    lines.append("static const struct kinfo { uint64_t cmask, hmask; int key, dir; } g_kinfo[KIND_N + 1] = { %s { 0, 0, 0, 0 } };" % "".join(r + ", " for r in rows))
    return "\n".join(lines) + "\n", names, info, problems
