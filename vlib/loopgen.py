"""Per-run generators of goto-instrument --loop-contracts-file inputs.

Loop contracts on code we may not edit are attached from a JSON file.  Local variable names in that
file are the mangled names goto-cc gives them (fn::1::1::2::i), which depend on block nesting, so the
file is regenerated on every run from the symbol table of the freshly compiled binary: a harmless
re-nesting of the code does not break the proof, a missing loop or symbol makes the unit undecided.
"""
import json, os, re, subprocess


def _symbols(gb, fn):
    out = subprocess.run(["goto-instrument", "--show-symbol-table", gb], capture_output=True, text=True).stdout
    return re.findall(r"^Symbol\.+: (%s::\S+)$" % re.escape(fn), out, re.M)


def _loops(gb, fn):
    out = subprocess.run(["cbmc", "--show-loops", gb], capture_output=True, text=True).stdout
    return re.findall(r"^Loop (%s\.\d+):" % re.escape(fn), out, re.M)


def c10_gcm_sgl(gb, workdir, harness_src='/verif/harness/c10_gcm_sgl.c'):
    fns = []
    for fn, dec in (("submit_gcm_sgl_enc", 0), ("submit_gcm_sgl_dec", 1)):
        loops = _loops(gb, fn)
        ivars = sorted(s for s in _symbols(gb, fn) if s.endswith("::i"))
        if len(loops) != 3 or len(ivars) != 3:
            raise RuntimeError("expected 3 segment loops with a local i in %s, found %d loops / %d locals" % (fn, len(loops), len(ivars)))
        entries = []
        for k, bits in enumerate((128, 192, 256)):
            inv = "i <= g_x_n && g_calls == 1 + (unsigned long) i && g_seq_ok != 0"
            entries.append({
                "loop_id": str(k),
                "assigns": "i, g_calls, g_seq_ok",
                "invariants": inv,
                "decreases": "g_x_n - i",
                "symbol_map": "i,%s" % ivars[k],
            })
        fns.append({fn: entries})
    path = os.path.join(workdir, "loops.json")
    with open(path, "w") as f:
        json.dump({"sources": [harness_src], "functions": fns, "output": "OUTPUT"}, f, indent=1)
    return path


def c01_kasumi_f8(gb, workdir, harness_src='/verif/harness/c01_kasumi.c'):
    fn = "kasumi_f8_1_buffer"
    loops = _loops(gb, fn)
    syms = _symbols(gb, fn)
    if len(loops) != 1:
        raise RuntimeError("expected exactly one loop in %s, found %d" % (fn, len(loops)))
    m = {}
    for name in ("lengthInBytes", "blkcnt", "b", "pBufferIn", "pBufferOut"):
        c = [s_ for s_ in syms if s_.endswith("::" + name)]
        if len(c) != 1:
            raise RuntimeError("local %s of %s not found exactly once (%r)" % (name, fn, c))
        m[name] = c[0]
    m["length"] = fn + "::length"
    inv = ("lengthInBytes <= length"
           " && (lengthInBytes != 0 ==> (8 * (unsigned long) blkcnt == (unsigned long) length - (unsigned long) lengthInBytes && g_calls == 1 + (unsigned long) blkcnt"
           " && pBufferIn == g_inp + 8 * (unsigned long) blkcnt && pBufferOut == g_outp + 8 * (unsigned long) blkcnt"
           " && b.b64[0] == (g_A ^ g_prev ^ (unsigned long) blkcnt)))"
           " && (lengthInBytes == 0 ==> g_calls == 1 + ((unsigned long) length + 7) / 8)"
           " && g_chain_ok != 0 && g_key_ok != 0")
    entry = {"loop_id": "0",
             "assigns": "lengthInBytes, blkcnt, b, pBufferIn, pBufferOut, g_calls, g_prev, g_chain_ok, g_key_ok, g_watch_set, g_ks_watch, __CPROVER_object_whole(g_outp)",
             "invariants": inv, "decreases": "lengthInBytes",
             "symbol_map": ";".join("%s,%s" % kv for kv in m.items())}
    path = os.path.join(workdir, "loops.json")
    with open(path, "w") as f:
        json.dump({"sources": [harness_src], "functions": [{fn: [entry]}], "output": "OUTPUT"}, f, indent=1)
    return path


def _c01_cbc(fn, per_block, enc):
    def gen(gb, workdir, harness_src='/verif/harness/c01_cbc_unbounded.c'):
        loops = _loops(gb, fn)
        syms = _symbols(gb, fn)
        if len(loops) != 1:
            raise RuntimeError("expected exactly one loop in %s, found %d (code restructured?)" % (fn, len(loops)))
        m = {}
        for name in ("n", "iv", "nblocks"):
            c = [s_ for s_ in syms if s_.endswith("::" + name)]
            if len(c) != 1:
                raise RuntimeError("local %s of %s not found exactly once (%r)" % (name, fn, c))
            m[name] = c[0]
        inv = ["0 <= n && n <= nblocks", "g_calls == %d * (unsigned long) n" % per_block, "g_ok != 0",
               "(g_w >= (unsigned long) n ==> g_inp[g_w] == g_Ow)",
               "(g_w < (unsigned long) n ==> (g_have != 0 && g_outp[g_w] == g_expect))",
               "(g_w2 >= (unsigned long) n ==> g_outp[g_w2] == g_O2)"]
        if enc:
            inv += ["iv == g_prev", "((g_w >= 1 && g_w - 1 < (unsigned long) n) ==> g_outp[g_w - 1] == g_expect_prev)"]
        else:
            inv += ["((g_w >= 1 && g_w - 1 >= (unsigned long) n) ==> g_inp[g_w - 1] == g_Owm1)",
                    "((unsigned long) n == g_w ==> iv == (g_w == 0 ? g_iv0 : g_Owm1))"]
        entry = {"loop_id": "0",
                 "assigns": "n, iv, g_calls, g_prev, g_last, g_expect, g_expect_prev, g_ok, g_have, __CPROVER_object_whole(g_outp)",
                 "invariants": " && ".join(inv), "decreases": "nblocks - n",
                 "symbol_map": ";".join("%s,%s" % kv for kv in m.items())}
        path = os.path.join(workdir, "loops.json")
        with open(path, "w") as f:
            json.dump({"sources": [harness_src], "functions": [{fn: [entry]}], "output": "OUTPUT"}, f, indent=1)
        return path
    return gen


def c02_sha_generic(gb, workdir, harness_src='/verif/harness/c02_sha.c'):
    fn = "sha_generic"
    loops = _loops(gb, fn)
    syms = _symbols(gb, fn)
    if len(loops) != 1:
        raise RuntimeError("expected exactly one loop in %s, found %d" % (fn, len(loops)))
    m = {}
    for name in ("idx", "local_digest"):
        c = [s_ for s_ in syms if s_.endswith("::" + name)]
        if len(c) != 1:
            raise RuntimeError("local %s of %s not found exactly once (%r)" % (name, fn, c))
        m[name] = c[0]
    m["length"] = fn + "::length"
    inv = "idx <= length && idx == g_blk * g_calls && g_calls <= g_full && g_ptr_ok != 0 && g_fam_ok != 0"
    entry = {"loop_id": "0", "assigns": "idx, g_calls, g_ptr_ok, g_fam_ok, local_digest", "invariants": inv, "decreases": "length - idx",
             "symbol_map": ";".join("%s,%s" % kv for kv in m.items())}
    path = os.path.join(workdir, "loops.json")
    with open(path, "w") as f:
        json.dump({"sources": [harness_src], "functions": [{fn: [entry]}], "output": "OUTPUT"}, f, indent=1)
    return path


def c02_kasumi_f9(gb, workdir, harness_src='/verif/harness/c02_kasumi_f9.c'):
    fn = "kasumi_f9_1_buffer"
    loops = _loops(gb, fn)
    syms = _symbols(gb, fn)
    if len(loops) != 1:
        raise RuntimeError("expected exactly one loop in %s, found %d" % (fn, len(loops)))
    m = {}
    for name in ("lengthInBytes", "a", "b", "pIn"):
        c = [s_ for s_ in syms if s_.endswith("::" + name)]
        if len(c) != 1:
            raise RuntimeError("local %s of %s not found exactly once (%r)" % (name, fn, c))
        m[name] = c[0]
    m["length"] = fn + "::length"
    inv = ("lengthInBytes <= length && 8 * g_calls == (unsigned long) length - (unsigned long) lengthInBytes && g_calls <= g_full"
           " && pIn == (const unsigned long *) g_msg + g_calls && a.b64[0] == g_a && b.b64[0] == g_b && g_ok != 0")
    entry = {"loop_id": "0", "assigns": "lengthInBytes, a, b, pIn, g_calls, g_a, g_b, g_ok, g_last_out", "invariants": inv, "decreases": "lengthInBytes",
             "symbol_map": ";".join("%s,%s" % kv for kv in m.items())}
    path = os.path.join(workdir, "loops.json")
    with open(path, "w") as f:
        json.dump({"sources": [harness_src], "functions": [{fn: [entry]}], "output": "OUTPUT"}, f, indent=1)
    return path


GENERATORS = {"c02_kasumi_f9": c02_kasumi_f9, "c02_sha_generic": c02_sha_generic, "c10_gcm_sgl": c10_gcm_sgl, "c01_kasumi_f8": c01_kasumi_f8,
              "c01_cbc_0": _c01_cbc("des_enc_cbc_basic", 1, True), "c01_cbc_1": _c01_cbc("des_dec_cbc_basic", 1, False),
              "c01_cbc_2": _c01_cbc("des3_enc_cbc_basic", 3, True), "c01_cbc_3": _c01_cbc("des3_dec_cbc_basic", 3, False)}
