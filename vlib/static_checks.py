"""Supporting static facts (source-text / symbol-table facts), counted separately from proofs."""
import time

_REG = []


def static(name, props, tier="quick"):
    def deco(fn):
        _REG.append({"name": name, "props": props, "fn": fn, "tier": tier})
        return fn
    return deco


def all_static():
    from vlib import static_impl  # noqa: F401  (registers)
    return list(_REG)


def run_static(s):
    t0 = time.time()
    try:
        res = s["fn"]()
    except Exception as e:  # infrastructure, not a violation
        return {"name": s["name"], "status": "error", "reason": repr(e), "violations": [], "facts": 0,
                "wall_s": time.time() - t0}
    res.setdefault("violations", [])
    res["name"] = s["name"]
    res["status"] = "fail" if res["violations"] else "ok"
    res["wall_s"] = time.time() - t0
    return res
