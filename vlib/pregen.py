"""Per-run generated headers (facts scraped mechanically from /repo's current text)."""
import os, re, glob
from vlib.core import REPO

RESET_FNS = ["ooo_mgr_aes_reset", "ooo_mgr_docsis_aes_reset", "ooo_mgr_cmac_reset", "ooo_mgr_ccm_reset", "ooo_mgr_aes_xcbc_reset",
             "ooo_mgr_hmac_sha1_reset", "ooo_mgr_hmac_sha224_reset", "ooo_mgr_hmac_sha256_reset", "ooo_mgr_hmac_sha384_reset",
             "ooo_mgr_hmac_sha512_reset", "ooo_mgr_hmac_md5_reset", "ooo_mgr_zuc_reset", "ooo_mgr_sha1_reset", "ooo_mgr_sha256_reset",
             "ooo_mgr_sha512_reset", "ooo_mgr_des_reset", "ooo_mgr_snow3g_reset"]


def reset_call_sites():
    """{fn: set of lane-count expressions} over all variant units"""
    out = {f: set() for f in RESET_FNS}
    for p in sorted(glob.glob(os.path.join(REPO, "lib", "*", "mb_mgr_*.c"))):
        txt = open(p).read()
        for m in re.finditer(r"\b(ooo_mgr_\w+_reset)\s*\(\s*state->(\w+)\s*,\s*([A-Za-z0-9_]+)\s*\)", txt):
            out.setdefault(m.group(1), set()).add(m.group(3))
    return out


def c15_lanes(workdir):
    sites = reset_call_sites()
    lines = ["/* generated each run from the reset call sites in lib/<variant>/mb_mgr_<variant>.c */"]
    for f, exprs in sorted(sites.items()):
        cond = " || ".join("(n) == (%s)" % e for e in sorted(exprs)) or "0"
        lines.append("#define LANES_%s(n) (%s)" % (f, cond))
    with open(os.path.join(workdir, "c15_lanes.h"), "w") as fh:
        fh.write("\n".join(lines) + "\n")
    return ["-I" + workdir]


RESET_TYPE = {"ooo_mgr_aes_reset": "MB_MGR_AES_OOO", "ooo_mgr_docsis_aes_reset": "MB_MGR_DOCSIS_AES_OOO", "ooo_mgr_cmac_reset": "MB_MGR_CMAC_OOO",
              "ooo_mgr_ccm_reset": "MB_MGR_CCM_OOO", "ooo_mgr_aes_xcbc_reset": "MB_MGR_AES_XCBC_OOO", "ooo_mgr_hmac_sha1_reset": "MB_MGR_HMAC_SHA_1_OOO",
              "ooo_mgr_hmac_sha224_reset": "MB_MGR_HMAC_SHA_256_OOO", "ooo_mgr_hmac_sha256_reset": "MB_MGR_HMAC_SHA_256_OOO",
              "ooo_mgr_hmac_sha384_reset": "MB_MGR_HMAC_SHA_512_OOO", "ooo_mgr_hmac_sha512_reset": "MB_MGR_HMAC_SHA_512_OOO",
              "ooo_mgr_hmac_md5_reset": "MB_MGR_HMAC_MD5_OOO", "ooo_mgr_zuc_reset": "MB_MGR_ZUC_OOO", "ooo_mgr_sha1_reset": "MB_MGR_SHA_1_OOO",
              "ooo_mgr_sha256_reset": "MB_MGR_SHA_256_OOO", "ooo_mgr_sha512_reset": "MB_MGR_SHA_512_OOO", "ooo_mgr_des_reset": "MB_MGR_DES_OOO",
              "ooo_mgr_snow3g_reset": "MB_MGR_SNOW3G_OOO"}


def c16_field_types(workdir):
    """which manager struct each IMB_MGR.<x>_ooo field holds, taken from how the variants RESET it
    (ooo_mgr_<kind>_reset(state-><field>, n) call sites; reset function -> its struct type is the
    cast at the top of each reset function, re-read here)"""
    src = open(os.path.join(REPO, "lib", "x86_64", "ooo_mgr_reset.c")).read()
    fn_type = {}
    for m in re.finditer(r"\b(ooo_mgr_\w+_reset)\s*\(void \*p_ooo_mgr[^)]*\)\s*\{\s*(MB_MGR_\w+)\s*\*p_mgr", src):
        fn_type[m.group(1)] = m.group(2)
    field_type = {}
    for p in sorted(glob.glob(os.path.join(REPO, "lib", "*", "mb_mgr_*.c"))):
        txt = open(p).read()
        for m in re.finditer(r"\b(ooo_mgr_\w+_reset)\s*\(\s*state->(\w+)\s*,", txt):
            t = fn_type.get(m.group(1))
            if t:
                field_type.setdefault(m.group(2), set()).add(t)
    lines = ["/* generated each run: IMB_MGR manager field -> struct type, from the reset call sites of all variants */"]
    for f, ts in sorted(field_type.items()):
        if len(ts) == 1:
            lines.append("FIELD_TYPE(%s, %s)" % (f, list(ts)[0]))
        else:
            lines.append("FIELD_TYPE_AMBIGUOUS(%s)" % f)
    with open(os.path.join(workdir, "c16_field_types.h"), "w") as fh:
        fh.write("\n".join(lines) + "\n")
    return ["-I" + workdir]


GENERATORS = {"c15_lanes": c15_lanes, "c16_field_types": c16_field_types}
