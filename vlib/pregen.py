"""Per-run generated headers (facts scraped mechanically from /repo's current text)."""
import os, re, glob
from vlib.core import REPO

RESET_FNS = ["ooo_mgr_aes_reset", "ooo_mgr_docsis_aes_reset", "ooo_mgr_cmac_reset", "ooo_mgr_ccm_reset", "ooo_mgr_aes_xcbc_reset",
             "ooo_mgr_hmac_sha1_reset", "ooo_mgr_hmac_sha224_reset", "ooo_mgr_hmac_sha256_reset", "ooo_mgr_hmac_sha384_reset",
             "ooo_mgr_hmac_sha512_reset", "ooo_mgr_hmac_md5_reset", "ooo_mgr_zuc_reset", "ooo_mgr_sha1_reset", "ooo_mgr_sha256_reset",
             "ooo_mgr_sha512_reset", "ooo_mgr_des_reset", "ooo_mgr_snow3g_reset"]


def reset_call_sites():
    """{fn: set of lane-count expressions} over all variant units"""
    out = {f: set() for f in RESET_FNS}
    for p in sorted(glob.glob(os.path.join(REPO, "lib", "*", "mb_mgr_*.c"))):
        txt = open(p).read()
        for m in re.finditer(r"\b(ooo_mgr_\w+_reset)\s*\(\s*state->(\w+)\s*,\s*([A-Za-z0-9_]+)\s*\)", txt):
            out.setdefault(m.group(1), set()).add(m.group(3))
    return out


def c15_lanes(workdir):
    sites = reset_call_sites()
    lines = ["/* generated each run from the reset call sites in lib/<variant>/mb_mgr_<variant>.c */"]
    for f, exprs in sorted(sites.items()):
        cond = " || ".join("(n) == (%s)" % e for e in sorted(exprs)) or "0"
        lines.append("#define LANES_%s(n) (%s)" % (f, cond))
    with open(os.path.join(workdir, "c15_lanes.h"), "w") as fh:
        fh.write("\n".join(lines) + "\n")
    return ["-I" + workdir]


GENERATORS = {"c15_lanes": c15_lanes}
