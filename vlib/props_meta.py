"""Per-property manifest metadata.  CLAIMED is the set of properties with a registered check."""
META = {
 "C12": dict(
   text="Deductive proof (CBMC code contracts, all inputs): the real is_job_invalid()/is_job_invalid_light() are equivalent to an "
        "independently organised constraint catalogue (soundness + completeness), the error code names a violated constraint, and the "
        "assigns clause proves that neither the descriptor nor any caller buffer is written. Counterexamples are replayed natively on the real checker.",
   note="Trusted: the catalogue transcription (spec/job_constraints.h); CBMC C semantics; SGL_ALL arrays bounded to 2 segments (listed under coverage.bounded when split out). "
        "Not decided here: argument checks implemented in assembly direct APIs.",
   technique="CBMC DFCC function contracts (requires/ensures/assigns) enforced on the real C code; ghost spec verdict; native counterexample replay",
   design="DESIGN.md §3 C12"),
}
NOT_APPLICABLE = {
 "C18": "callee-saved registers, RSP, DF and MXCSR are not C-visible state; no CBMC contract can mention them and the functions at issue are hand-written NASM (DESIGN.md §3 C18)",
}
