"""Per-property manifest metadata.  CLAIMED is the set of properties with a registered check."""
META = {
 "C12": dict(
   text="Deductive proof (CBMC code contracts, all inputs): the real is_job_invalid()/is_job_invalid_light() are equivalent to an "
        "independently organised constraint catalogue (soundness + completeness), the error code names a violated constraint, and the "
        "assigns clause proves that neither the descriptor nor any caller buffer is written. Counterexamples are replayed natively on the real checker.",
   note="Trusted: the catalogue transcription (spec/job_constraints.h); CBMC C semantics; SGL_ALL arrays bounded to 2 segments (listed under coverage.bounded when split out). "
        "Not decided here: argument checks implemented in assembly direct APIs.",
   technique="CBMC DFCC function contracts (requires/ensures/assigns) enforced on the real C code; ghost spec verdict; native counterexample replay",
   design="DESIGN.md §3 C12"),
 "C06": dict(
   text="Deductive, all configurations at once (no enumeration of the ~22k cells): on the real per-variant translation units, for every descriptor the real "
        "parameter check accepts, the function-pointer tables (job API index and burst-API suite id) reach a stage dispatcher whose precondition - called with the "
        "job's own cipher mode, key size, direction, hash algorithm - is asserted at every one of the ~520 call sites; exactly one dispatcher per stage call. "
        "AEAD pairing exclusivity is the C12 catalogue proof. Counterexamples name the offending (mode, key, direction, hash) cell.",
   note="Dispatcher bodies are replaced by precondition-asserting models (listed in trusted_base); which NASM kernel a dispatcher branch binds is by symbol name. "
        "Quick: sse_t1, avx2_t2, avx512_t2; thorough: all nine variants.",
   technique="CBMC call-site precondition (callee-contract requires) checking over a fully symbolic accepted descriptor on the real dispatch tables; real is_job_invalid as acceptance predicate",
   design="DESIGN.md §3 C06"),
 "C05": dict(
   text="Deductive, all ring states and all call histories by induction over the representation invariant: each single-job ring operation of the real per-variant "
        "unit is verified against a FIFO contract (ghost head/tail indexes over the real 256-slot ring): exact next/earliest arithmetic incl. wrap-around, "
        "oldest-first hand-back only with status >= COMPLETED, full queue forces completion of the oldest job, offered slot not in flight, queue size = view size, "
        "rejected job never reaches a stage. Only the head and tail slots can be touched (any other slot access fails an obligation).",
   note="Stage sequencers (submit_new_job, complete_job), the parameter check and JOBS() are replaced by models (trusted_base; JOBS typed form proved by a lemma on the real function). "
        "Partial correctness: termination of flush loops depends on the NASM managers. Burst API units are listed separately when present.",
   technique="CBMC DFCC function contracts with ghost abstract-queue view; callee models linked in place of stage sequencers",
   design="DESIGN.md §3 C05"),
 "C14": dict(
   text="Deductive: (a) error plumbing - imb_get_strerror total over all int (every library code has its own string), imb_set_errno/imb_get_errno contracts; "
        "(b) frame of every single-job ring operation: only earliest/next/errno and the status of the head and tail slot are assignable, so no C path writes a caller-owned descriptor field; "
        "status on hand-back >= COMPLETED; per-call errno 0 on success / the check's code on rejection.",
   note="Writes done inside NASM kernels are assumed (status only). Stage dispatchers in C are covered as their binding units are added.",
   technique="CBMC DFCC assigns-clause (frame) checking and postconditions on the real C code",
   design="DESIGN.md §3 C14"),
 "C15": dict(
   text="Deductive 2-run self-composition on the real ooo_mgr_*_reset functions: for an arbitrary byte index, two managers with arbitrary independent prior contents agree after reset "
        "(no residue), nothing at or past road_block is written, and the free-lane stack holds lanes 0..n-1, for every lane count any variant passes (call sites scanned each run).",
   note="memset is CBMC's library model. Behaviour of NASM kernels on a reset manager is outside C contracts. Variant init/reset_ooo_mgrs coverage is added as units exist.",
   technique="CBMC self-composition harness with ghost byte index over the real reset functions",
   design="DESIGN.md §3 C15"),
 "C08": dict(
   text="Deductive over all 2^64 CPU feature words and all flag words: on the real family initialisers, auto-init and cpu_feature_adjust, each per-variant init is reached only with its "
        "IMB_CPUFLAGS_<variant> set inside adjust(flags, cpuid) (callee precondition asserted at every call site), the widest satisfiable variant is chosen, *_OFF flags are honoured, and with "
        "missing flags or a NULL manager nothing is initialised and no kernel is executed (the self-test precondition).",
   note="Per-variant inits, self_test and cpuid are modelled (trusted_base). Equality of outputs across NASM variants is not decided.",
   technique="CBMC call-site precondition checking on the real selection code with symbolic feature/flag words",
   design="DESIGN.md §3 C08"),
 "C16": dict(
   text="Deductive on the real imb_set_pointers_mb_mgr: for every table entry and pair (fully unwound, constant indexes) the manager pointer is base + a fixed offset, 64-aligned, inside "
        "imb_get_mb_mgr_size(), disjoint from the others, road block stamped, table = struct fields; for an arbitrary byte of the block (ghost index) re-attach writes nothing but pointers/flags/"
        "features/errno/road blocks, so ring and manager contents survive; reset zeroes everything else.",
   note="Variant init and cpuid are modelled. Position-independence of lane state written by NASM is not decided.",
   technique="CBMC assertions with ghost byte index over the real allocator code; complete unwinding of the 41-entry table loops",
   design="DESIGN.md §3 C16"),
 "C02": dict(
   text="On the real SHA one-shot wrappers of every variant (sha_generic instantiations) the FIPS 180-4 framing is verified for every message content over a bounded length range "
        "that contains every padding threshold: block count, every byte of every padded block (ghost block/byte indexes), 64/128-bit big-endian length field, the algorithm's initial hash "
        "value, big-endian truncated digest, nothing written past the digest; compression functions are uninterpreted. Bounded in message length (stated), so reported as a bounded stand-in.",
   note="Compression kernels, HMAC/CMAC/XCBC/ZUC/SNOW3G/KASUMI/Poly1305/CRC managers are NASM and not decided. The multi-buffer SHA manager in C (sha_mb_mgr.h) is not covered yet.",
   technique="CBMC on the real wrappers with logging models of the NASM one-block kernels; FIPS 180-4 padding oracle written from the standard; loops unwound for the stated bound",
   category="model_checking", design="DESIGN.md §3 C02"),
 "C20": dict(
   text="Deductive over all verdict assignments to all known-answer vectors: in the real self_test.c gating code every vector of every table runs exactly once in table order, the result is 1 iff "
        "every comparison passed, IMB_FEATURE_SELF_TEST is announced and IMB_FEATURE_SELF_TEST_PASS is set iff the result is 1 regardless of its previous value, no other feature bit changes, "
        "and the callback stream is START(group, vector) followed by FAIL for exactly the failing vectors / PASS for the others; the public inits report IMB_ERR_SELFTEST iff it failed (c08 units).",
   note="Per-vector KAT functions are replaced by arbitrary-verdict models; that a corrupted kernel changes its output is a fact about NASM kernels.",
   technique="CBMC on the real gating code with verdict models substituted by goto-instrument --replace-calls; vector tables constant so loops are completely unwound",
   design="DESIGN.md §3 C20"),
}
NOT_APPLICABLE = {
 "C18": "callee-saved registers, RSP, DF and MXCSR are not C-visible state; no CBMC contract can mention them and the functions at issue are hand-written NASM (DESIGN.md §3 C18)",
}
