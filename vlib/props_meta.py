"""Per-property manifest metadata.  CLAIMED is the set of properties with a registered check."""
META = {
 "C12": dict(
   text="Deductive proof (CBMC code contracts, all inputs): the real is_job_invalid()/is_job_invalid_light() are equivalent to an "
        "independently organised constraint catalogue (soundness + completeness), the error code names a violated constraint, and the "
        "assigns clause proves that neither the descriptor nor any caller buffer is written. Counterexamples are replayed natively on the real checker.",
   note="Trusted: the catalogue transcription (spec/job_constraints.h); CBMC C semantics; SGL_ALL arrays bounded to 2 segments (listed under coverage.bounded when split out). "
        "Not decided here: argument checks implemented in assembly direct APIs.",
   technique="CBMC DFCC function contracts (requires/ensures/assigns) enforced on the real C code; ghost spec verdict; native counterexample replay",
   design="DESIGN.md §3 C12"),
 "C06": dict(
   text="Deductive, all configurations at once (no enumeration of the ~22k cells): on the real per-variant translation units, for every descriptor the real "
        "parameter check accepts, the function-pointer tables (job API index and burst-API suite id) reach a stage dispatcher whose precondition - called with the "
        "job's own cipher mode, key size, direction, hash algorithm - is asserted at every one of the ~520 call sites; exactly one dispatcher per stage call. "
        "AEAD pairing exclusivity is the C12 catalogue proof. Counterexamples name the offending (mode, key, direction, hash) cell.",
   note="Dispatcher bodies are replaced by precondition-asserting models (listed in trusted_base); which NASM kernel a dispatcher branch binds is by symbol name. "
        "Quick: sse_t1, avx2_t2, avx512_t2; thorough: all nine variants.",
   technique="CBMC call-site precondition (callee-contract requires) checking over a fully symbolic accepted descriptor on the real dispatch tables; real is_job_invalid as acceptance predicate",
   design="DESIGN.md §3 C06"),
 "C05": dict(
   text="Deductive, all ring states and all call histories by induction over the representation invariant: each single-job ring operation of the real per-variant "
        "unit is verified against a FIFO contract (ghost head/tail indexes over the real 256-slot ring): exact next/earliest arithmetic incl. wrap-around, "
        "oldest-first hand-back only with status >= COMPLETED, full queue forces completion of the oldest job, offered slot not in flight, queue size = view size, "
        "rejected job never reaches a stage. Only the head and tail slots can be touched (any other slot access fails an obligation).",
   note="Stage sequencers (submit_new_job, complete_job), the parameter check and JOBS() are replaced by models (trusted_base; JOBS typed form proved by a lemma on the real function). "
        "Partial correctness: termination of flush loops depends on the NASM managers. Burst API units are listed separately when present.",
   technique="CBMC DFCC function contracts with ghost abstract-queue view; callee models linked in place of stage sequencers",
   design="DESIGN.md §3 C05"),
 "C14": dict(
   text="Deductive: (a) error plumbing - imb_get_strerror total over all int (every library code has its own string), imb_set_errno/imb_get_errno contracts; "
        "(b) frame of every single-job ring operation: only earliest/next/errno and the status of the head and tail slot are assignable, so no C path writes a caller-owned descriptor field; "
        "status on hand-back >= COMPLETED; per-call errno 0 on success / the check's code on rejection.",
   note="Writes done inside NASM kernels are assumed (status only). Stage dispatchers in C are covered as their binding units are added.",
   technique="CBMC DFCC assigns-clause (frame) checking and postconditions on the real C code",
   design="DESIGN.md §3 C14"),
 "C15": dict(
   text="Deductive 2-run self-composition on the real ooo_mgr_*_reset functions: for an arbitrary byte index, two managers with arbitrary independent prior contents agree after reset "
        "(no residue), nothing at or past road_block is written, and the free-lane stack holds lanes 0..n-1, for every lane count any variant passes (call sites scanned each run).",
   note="memset is CBMC's library model. Behaviour of NASM kernels on a reset manager is outside C contracts. Variant init/reset_ooo_mgrs coverage is added as units exist.",
   technique="CBMC self-composition harness with ghost byte index over the real reset functions",
   design="DESIGN.md §3 C15"),
 "C08": dict(
   text="Deductive over all 2^64 CPU feature words and all flag words: on the real family initialisers, auto-init and cpu_feature_adjust, each per-variant init is reached only with its "
        "IMB_CPUFLAGS_<variant> set inside adjust(flags, cpuid) (callee precondition asserted at every call site), the widest satisfiable variant is chosen, *_OFF flags are honoured, and with "
        "missing flags or a NULL manager nothing is initialised and no kernel is executed (the self-test precondition).",
   note="Per-variant inits, self_test and cpuid are modelled (trusted_base). Equality of outputs across NASM variants is not decided.",
   technique="CBMC call-site precondition checking on the real selection code with symbolic feature/flag words",
   design="DESIGN.md §3 C08"),
 "C16": dict(
   text="Deductive on the real imb_set_pointers_mb_mgr: for every table entry and pair (fully unwound, constant indexes) the manager pointer is base + a fixed offset, 64-aligned, inside "
        "imb_get_mb_mgr_size(), disjoint from the others, road block stamped, table = struct fields; for an arbitrary byte of the block (ghost index) re-attach writes nothing but pointers/flags/"
        "features/errno/road blocks, so ring and manager contents survive; reset zeroes everything else.",
   note="Variant init and cpuid are modelled. Position-independence of lane state written by NASM is not decided.",
   technique="CBMC assertions with ghost byte index over the real allocator code; complete unwinding of the 41-entry table loops",
   design="DESIGN.md §3 C16"),
 "C02": dict(
   text="On the real SHA one-shot wrappers of every variant (sha_generic instantiations) the FIPS 180-4 framing is verified for every message content over a bounded length range "
        "that contains every padding threshold: block count, every byte of every padded block (ghost block/byte indexes), 64/128-bit big-endian length field, the algorithm's initial hash "
        "value, big-endian truncated digest, nothing written past the digest; compression functions are uninterpreted. Those units are bounded in message length (stated); KASUMI f9 (C code shared by every variant): chaining A[n] = KASUMI_IK(A[n-1] xor M[n]), zero-filled tail, final KASUMI under IK xor KM of the xor of all A[n], MAC = left 32 bits, for every accepted length (loop contract). the *_any_len units prove the same framing for messages of ANY length: the full-block loop of sha_generic() is closed by a loop contract (blocks compressed in place, in order, block count), the padding blocks are checked byte by byte with a ghost index, digest big-endian and truncated (the initial-hash-value clause stays with the bounded units). Multi-buffer SHA manager in C (sha_mb_mgr.h, used by every variant): sha{1,256,512}_create_extra_blocks is proved equal to its functional contract (tail | 0x80 | zeros | big-endian bit length, lane redirected, nothing else in the manager touched) for every lane index, every tail length and content - complete, loops bounded by the block size; the scheduler submit_flush_job_sha_* then runs with that contract substituted, on the real 2-lane instances, for two jobs of different lengths plus flush: per job the blocks fed to the kernel are the FIPS 180-4 padding of ITS message and the tag is the big-endian image of ITS lane's digest column (bounded history, stated).",
   note="Compression kernels, HMAC/CMAC/XCBC/ZUC/SNOW3G/KASUMI/Poly1305/CRC managers are NASM and not decided.",
   technique="CBMC on the real wrappers with logging models of the NASM one-block kernels; FIPS 180-4 padding oracle written from the standard; loop contract (per-run generated) on the block loop for the any-length units, loops unwound for the stated bound in the others",
   category="proof", design="DESIGN.md §3 C02"),
 "C20": dict(
   text="Deductive over all verdict assignments to all known-answer vectors: in the real self_test.c gating code every vector of every table runs exactly once in table order, the result is 1 iff "
        "every comparison passed, IMB_FEATURE_SELF_TEST is announced and IMB_FEATURE_SELF_TEST_PASS is set iff the result is 1 regardless of its previous value, no other feature bit changes, "
        "and the callback stream is START(group, vector) followed by FAIL for exactly the failing vectors / PASS for the others; the public inits report IMB_ERR_SELFTEST iff it failed (c08 units).",
   note="Per-vector KAT functions are replaced by arbitrary-verdict models; that a corrupted kernel changes its output is a fact about NASM kernels.",
   technique="CBMC on the real gating code with verdict models substituted by goto-instrument --replace-calls; vector tables constant so loops are completely unwound",
   design="DESIGN.md §3 C20"),
 "C01": dict(
   text="For the cipher modes implemented in C (DES-CBC, 3DES-CBC, DOCSIS-DES; bound by all SSE and AVX2 variants): the real block function enc_dec_1 is proved equal to a FIPS 46-3 "
        "transcription (itself validated on the standard's worked example) for all 2^64 blocks, all round-key sets and both directions; the real DES-CBC and 3DES-CBC drivers are proved against FIPS 81 chaining / the TDEA E-D-E composition for messages of ANY length and every block index, in place and out of place, "
        "by loop contracts (inductive invariants, no unwinding) over a checking contract model of the block function; the DOCSIS residual-CFB drivers and a whole-buffer view of the CBC drivers additionally on short messages (bounded in the number of blocks). With C11's key-schedule proof this fixes the bytes written for every key/IV/content. KASUMI f8 (C code shared by every variant): the chaining of the real kasumi_f8_1_buffer - modifier under CK xor KM, block n = KASUMI(A xor BLKCNT(n) xor KS[n-1]), 1 + ceil(len/8) block calls - is proved for EVERY accepted length by a loop contract (inductive invariant, no unwinding), and the output bytes (xor with the own block's keystream, partial last block, nothing beyond the length, in place or not) on short messages.",
   note="All other ciphers (AES modes, ChaCha20, ZUC, SNOW3G, SNOW-V, SM4, AVX512 DES) are NASM/intrinsics: not decided; the KASUMI block function itself (TS 35.202) is replaced by a checking contract model, KASUMI n-buffer variants are not covered. NASM helpers modelled. DOCSIS / whole-buffer chaining units bounded (coverage.bounded).",
   technique="CBMC equivalence proof of the real C block function against a FIPS 46-3 specification; uninterpreted-function abstraction for the chaining modes; loop contract (inductive invariant attached from a per-run generated --loop-contracts-file) for KASUMI f8 and the DES/3DES-CBC block loops",
   design="DESIGN.md §3 C01"),
 "C11": dict(
   text="The real des_key_schedule equals FIPS 46-3 PC-1 / cumulative shifts / PC-2 for all 2^64 keys (parity bits ignored), for an arbitrary round (ghost index), in the 6-bits-per-byte layout "
        "that the block-function proof (C01) consumes; NULL arguments refused with the documented error codes; temporaries cleared.",
   note="AES, SM4, KASUMI, SNOW3G key schedules, CMAC sub-keys, GHASH key powers are assembly: not decided. IV generators / HMAC ipad-opad are covered as their units are added.",
   technique="CBMC equivalence proof against a FIPS 46-3 transcription, loops completely unwound",
   design="DESIGN.md §3 C11"),
 "C04": dict(
   text="Stage-level independence in C: every flush of either stage hands back only a job whose stage was outstanding (so no stage is run twice), a stage adds exactly its own bit to the status of the job it hands back, "
        "and the sequencing functions submit each job to each stage at most once, in its own chain order, as itself. Lane isolation inside the NASM out-of-order managers is assumed (abstract lane model); for the out-of-order SHA manager written in C (sha_mb_mgr.h) it is checked on the real code: with two jobs of different lengths in flight each job is completed exactly once, from its own message bytes and its own digest column, whatever the other lane holds, and the padding builder touches no other lane (bounded history).",
   note="Co-scheduled-job independence inside the NASM multi-buffer managers (min-length scheduling, lane copies) is not decidable by C contracts.",
   technique="CBMC on the real dispatcher / sequencing code with generated kernel stubs and an abstract lane model; call-site obligations",
   design="DESIGN.md §3 C04"),
 "C03": dict(
   text="C glue of the combined modes that is written in C: ChaCha20-Poly1305 update/finalize hand Poly1305 the ciphertext (taken from the source before an in-place decrypt overwrites it), then the "
        "(AAD length, ciphertext length) block as two little-endian words, write exactly tag_len tag bytes and wipe the key material; DOCSIS-DES residual termination uses CFB of the previous "
        "ciphertext block or the IV, in place or not.",
   note="AES-GCM, AES-CCM, PON, SNOW-V-AEAD, SM4-GCM kernels and the one-shot ChaCha20-Poly1305 path are NASM or not yet under contract: not decided.",
   technique="CBMC on the real glue code with logging models of the NASM kernels (ghost stream position)", design="DESIGN.md §3 C03"),
 "C07": dict(
   text="Memory-safety and frame obligations of the C functions under contract: pointer/bounds checks over fresh exact-size objects (parameter check, ring operations, error plumbing, reset functions, "
        "allocator helpers, IV generators, HMAC pad derivation), 'nothing written past the output / the source left intact' assertions for SHA wrappers, DES chaining, ChaCha20-Poly1305 tag and scratch copies.",
   note="SIMD tail loads/stores live in NASM: not decided. Only the functions listed in evidence are covered.",
   technique="CBMC --pointer-check/--bounds-check and DFCC assigns clauses on the real C code", design="DESIGN.md §3 C07"),
 "C09": dict(
   text="Agreement of entry points that is visible in C: the burst API dispatches on suite identifiers which are proved equal to (cipher table index, hash algorithm) of the descriptor, so CALL_* reach the "
        "same dispatch-table entries as the job API; a burst whose identifier does not match its descriptor is refused (bounded burst unit). Synchronous cipher and hash bursts (mb_mgr_burst.h) on the real per-variant unit, bounded burst size: the call returns n with EVERY job COMPLETED, each job is given to its manager exactly once and handed back once (multi-job manager model), nothing stays parked, only descriptors of the burst are touched, and every kernel that runs is one of the burst's cipher mode / key size / direction resp. hash algorithm - the binding the single-job API is proved to make under C06, so both entry points run the same primitive on the same work item; unsupported modes process nothing and report IMB_ERR_CIPH_MODE / IMB_ERR_HASH_ALGO.",
   note="The AEAD (CCM) burst, the checked variants' per-job validation loop and the direct NASM entry points (GCM/SHA one-shot, ZUC/SNOW3G/KASUMI n-buffer, CRC) are not under contract: not decided. Equality of OUTPUT BYTES across entry points reduces to the kernels (NASM), which are not analysed.",
   technique="CBMC call-site precondition checking on the real dispatch tables; synchronous bursts against a multi-job manager model with generated kernel stubs (bounded burst size)", design="DESIGN.md §3 C09"),
 "C10": dict(
   text="Inductive invariant proof on the real ChaCha20-Poly1305 update/finalize code: with remain_ct_bytes = N mod 16, the scratch pad holding the unhashed ciphertext bytes and hash_len = N, one update "
        "call with any segment length (0..48 per call in the unit) hands Poly1305 exactly the newly completed 16-byte multiples of (pending tail ++ segment ciphertext) in order and re-establishes the invariant; "
        "finalize hashes the tail and the length block; the job-API last-segment call (complete_chacha20_poly1305) merges a short final segment with the pending partial block so that only the last data update is short. Hence the Poly1305 input is the same for every partition into any number of segments. AES-GCM SGL jobs (submit_gcm_sgl_enc/dec): for every job form, key size, direction and ANY number of segments (loop contracts, unbounded) the IMB_SGL_ALL form issues exactly init, one update per segment in order with that segment's own (out, in, len), finalize - the same primitive sequence as the INIT/UPDATE/COMPLETE job sequence.",
   note="Key-stream continuity across segments and the GCM carry state between update calls are inside NASM kernels: assumed. Segment length per call bounded to 48 bytes in the unit (labelled bounded).",
   technique="CBMC check of a representation invariant (induction over calls) with ghost stream-position index; loop contracts (per-run generated --loop-contracts-file) with checking contract models of the GCM primitives for the SGL segment loops", category="proof", design="DESIGN.md §3 C10"),
 "C13": dict(
   text="C-visible SAFE_DATA residue: on every path the C helpers clear their key-derived temporaries (DES key-schedule C/D/T, DES round-key copy, SHA message block and chaining value, HMAC key/pad "
        "buffers) - counted clearing calls - and the ChaCha20-Poly1305 context has its key-stream remainder and Poly1305 key zeroed after finalize; the C SHA manager wipes the message tail from the lane's extra_block before the job is handed back (checked on the real scheduler, bounded history).",
   note="Registers, NASM stack frames and NASM lane clearing are not C-visible: not decided. Clearing is observed as calls to the (modelled) NASM zeroing primitive, not as an exit-state scan of the C stack.",
   technique="CBMC obligations on clearing calls / context contents of the real C code", design="DESIGN.md §3 C13"),
 "C17": dict(
   text="Census of every writable object of static storage duration in all C translation units of lib/ (goto-cc symbol tables, rebuilt each run): exactly the known ones exist (error mirror, cached CPUID leaves, "
        "session counter, one never-assigned dispatch table); a new process-wide mutable object fails the check. Together with the frame proofs (ring operations touch only their own manager) this is the sequential half of independence.",
   note="Thread interleavings are not decided: CBMC contracts have no concurrency semantics. NASM data sections are not scanned.",
   technique="static fact from goto-cc symbol tables + DFCC frame proofs", category="other", design="DESIGN.md §3 C17"),
 "C19": dict(
   text="SAFE_LOOKUP discipline of the DES block function in C: for all blocks and round keys all 128 S-box evaluations go through the constant-time lookup primitive over a whole 64-entry table (a direct "
        "table[secret] read lowers the count and fails).",
   note="The lookup primitives themselves, KASUMI/SNOW3G code, the address trace of non-table accesses and compiler-introduced branches are not decided.",
   technique="CBMC counting obligation on the real C code with a model of the NASM lookup primitive", design="DESIGN.md §3 C19"),
}
NOT_APPLICABLE = {
 "C18": "callee-saved registers, RSP, DF and MXCSR are not C-visible state; no CBMC contract can mention them and the functions at issue are hand-written NASM (DESIGN.md §3 C18)",
}
