"""Per-property manifest metadata.  CLAIMED is the set of properties with a registered check."""
META = {
 "C12": dict(
   text="Deductive proof (CBMC code contracts, all inputs): the real is_job_invalid()/is_job_invalid_light() are equivalent to an "
        "independently organised constraint catalogue (soundness + completeness), the error code names a violated constraint, and the "
        "assigns clause proves that neither the descriptor nor any caller buffer is written. Counterexamples are replayed natively on the real checker.",
   note="Trusted: the catalogue transcription (spec/job_constraints.h); CBMC C semantics; SGL_ALL arrays bounded to 2 segments (listed under coverage.bounded when split out). "
        "Not decided here: argument checks implemented in assembly direct APIs.",
   technique="CBMC DFCC function contracts (requires/ensures/assigns) enforced on the real C code; ghost spec verdict; native counterexample replay",
   design="DESIGN.md §3 C12"),
 "C06": dict(
   text="Deductive, all configurations at once (no enumeration of the ~22k cells): on the real per-variant translation units, for every descriptor the real "
        "parameter check accepts, the function-pointer tables (job API index and burst-API suite id) reach a stage dispatcher whose precondition - called with the "
        "job's own cipher mode, key size, direction, hash algorithm - is asserted at every one of the ~520 call sites; exactly one dispatcher per stage call. "
        "AEAD pairing exclusivity is the C12 catalogue proof. Counterexamples name the offending (mode, key, direction, hash) cell.",
   note="Dispatcher bodies are replaced by precondition-asserting models (listed in trusted_base); which NASM kernel a dispatcher branch binds is by symbol name. "
        "Quick: sse_t1, avx2_t2, avx512_t2; thorough: all nine variants.",
   technique="CBMC call-site precondition (callee-contract requires) checking over a fully symbolic accepted descriptor on the real dispatch tables; real is_job_invalid as acceptance predicate",
   design="DESIGN.md §3 C06"),
}
NOT_APPLICABLE = {
 "C18": "callee-saved registers, RSP, DF and MXCSR are not C-visible state; no CBMC contract can mention them and the functions at issue are hand-written NASM (DESIGN.md §3 C18)",
}
