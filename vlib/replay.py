"""Counterexample handling: reduce the CBMC trace to the contract's inputs, regenerate a
native C program that runs the REAL code (same /repo sources, compiled by gcc; asm comes
from the real library when needed) on those inputs and re-evaluates the failed condition.

If no generator exists for a unit, or the pre-state cannot be rebuilt natively, the replay
file still names the failed obligation and carries the verifier's output and the
VIOLATION line ends with no-failing-input-found.
"""
import os, re, json, subprocess, tempfile, shutil, hashlib
from vlib import core

VERIF = core.VERIF
REPO = core.REPO


def _leafs(trace):
    """ordered list of (function, lhs, valuedict) for visible assignments"""
    out = []
    for st in trace or []:
        if st.get("stepType") == "assignment" and not st.get("hidden", False):
            out.append((st.get("sourceLocation", {}).get("function"), st.get("lhs"), st.get("value", {})))
    return out


def _is_null(v):
    d = str(v.get("data", v.get("name", "")))
    return "NULL" in d and "dynamic_object" not in d


def _int(v):
    b = v.get("binary")
    if b and set(b) <= {"0", "1"}:
        return int(b, 2)
    d = str(v.get("data", "0"))
    m = re.search(r"-?\d+", d)
    return int(m.group(0)) if m else 0


def summarize_trace(trace, limit=120):
    """compact verifier output for the replay file: last value of every interesting lhs"""
    last = {}
    for fn, lhs, v in _leafs(trace):
        if lhs is None or lhs.startswith("__CPROVER") or "write_set" in lhs or "car_set" in lhs:
            continue
        if re.match(r"(imb_errno_types|auth_tag_len_|dynamic_object\$\d+\.(?!.*(jobs\[)).*_(ooo|fn|one_block))", lhs):
            continue
        last[lhs] = str(v.get("data", v.get("name", "?")))
    items = list(last.items())
    # prefer harness/contract level names
    items.sort(key=lambda kv: (kv[0].startswith("dynamic_object") and ".jobs[" in kv[0], len(kv[0])))
    return dict(items[:limit])


def _cc_native(src, out, extra=None, link_lib=False, timeout=900):
    cmd = ["gcc", "-O1", "-g", "-std=gnu99", "-DNATIVE_REPLAY"] + core.BASE_DEFS + core.BASE_INCS + [src, "-o", out]
    if extra:
        cmd += extra
    p = subprocess.run(cmd, stdout=subprocess.PIPE, stderr=subprocess.PIPE, timeout=timeout)
    return p.returncode, (p.stdout + p.stderr).decode(errors="replace")


# ------------------------------------------------------------------ generators
def gen_job_check(r, o, leafs, wd):
    """C12/C06: rebuild the descriptor and the by-value selectors, run the real checker natively."""
    objs = {}
    for fn, lhs, v in leafs:
        m = re.match(r"(dynamic_object\$\d+)(.*)$", lhs or "")
        if m:
            objs.setdefault(m.group(1), []).append((m.group(2), v))
    job_obj = None
    for k, fl in objs.items():
        if any(p == ".key_len_in_bytes" for p, _ in fl) and any(p == ".cipher_mode" for p, _ in fl):
            job_obj = k
    light = r.unit.entry.endswith("_light")
    if job_obj is None and not light:
        return False, "descriptor object not found in trace", "", None
    if job_obj is None:
        objs["__none__"] = []
        job_obj = "__none__"
    args = {}
    for fn, lhs, v in leafs:
        if fn and fn.startswith("h_") and lhs in ("cm", "ha", "dir", "kl"):
            args[lhs] = _int(v)
    if len(args) < 4:
        return False, "selector arguments not found in trace", "", None
    lines = []
    ptr_n = 0
    sig = {}

    def emit_obj_bytes(name):
        """bytes / pointer array / SGL array behind a pointer"""
        fl = objs.get(name, [])
        decl = []
        if any(re.match(r"\[\d+l?\]\.(in|out|len)$", p) for p, _ in fl):
            decl.append("static struct IMB_SGL_IOV %s[8]; memset(%s,0,sizeof(%s));" % (cname(name), cname(name), cname(name)))
            for p, v in fl:
                m = re.match(r"\[(\d+)l?\]\.(in|out|len)$", p)
                if m and int(m.group(1)) < 8:
                    if m.group(2) == "len":
                        decl.append("%s[%s].len = 0x%xULL;" % (cname(name), m.group(1), _int(v)))
                    else:
                        decl.append("%s[%s].%s = %s;" % (cname(name), m.group(1), m.group(2), "NULL" if _is_null(v) else "scratch"))
            return decl
        decl.append("static union { uint8_t b[256]; void *p[32]; } %s_u; memset(&%s_u,0,sizeof(%s_u)); uint8_t *%s = %s_u.b;" %
                    (cname(name), cname(name), cname(name), cname(name), cname(name)))
        for p, v in fl:
            m = re.match(r"\[(\d+)l?\]$", p)
            if not m or int(m.group(1)) >= 256:
                continue
            typ = str(v.get("type", ""))
            if "*" in typ or "pointer" in typ or "NULL" in str(v.get("data", "")) or v.get("name") == "pointer":
                if int(m.group(1)) < 32:
                    decl.append("%s_u.p[%s] = %s;" % (cname(name), m.group(1), "NULL" if _is_null(v) else "scratch"))
            else:
                decl.append("%s[%s] = 0x%x;" % (cname(name), m.group(1), _int(v) & 0xff))
        return decl

    def cname(n):
        return n.replace("$", "_")

    body = []
    emitted = set()
    for p, v in objs[job_obj]:
        path = re.sub(r"\.\$anon\d+", "", p).lstrip(".")
        kind = str(v.get("name", ""))
        data = str(v.get("data", ""))
        if kind in ("struct", "union", "array") or data in ("struct", "union", "array"):
            continue
        if not path or "$" in path:
            continue
        is_ptr = kind in ("pointer", "unknown") or "NULL" in data or "dynamic_object" in data or data == "unknown" or \
            "*" in str(v.get("type", ""))
        if path in ("cipher_func", "hash_func"):
            body.append("j.%s = %s;" % (path, "NULL" if _is_null(v) else "dummy_fn"))
            sig[path] = "NULL" if _is_null(v) else "set"
        elif is_ptr:
            if _is_null(v):
                body.append("j.%s = NULL;" % path)
                sig[path] = "NULL"
            else:
                m = re.search(r"dynamic_object\$\d+", data)
                if m and m.group(0) in objs and m.group(0) != job_obj:
                    if m.group(0) not in emitted:
                        body = emit_obj_bytes(m.group(0)) + body
                        emitted.add(m.group(0))
                    body.append("j.%s = (void *) %s;" % (path, cname(m.group(0))))
                else:
                    ptr_n += 1
                    body.append("static uint8_t pb%d[4096]; j.%s = (void *) pb%d;" % (ptr_n, path, ptr_n))
                sig[path] = "set"
        else:
            val = _int(v)
            body.append("j.%s = (__typeof__(j.%s)) 0x%xULL;" % (path, path, val))
            sig[path] = val
    errno_before = 0
    for fn, lhs, v in leafs:
        if lhs and lhs.endswith(".imb_errno") and lhs.startswith("dynamic_object"):
            errno_before = _int(v)
            if errno_before >= 1 << 31:
                errno_before -= 1 << 32
            break
    src = os.path.join(wd, "replay_job_check.c")
    with open(src, "w") as f:
        f.write("""/* generated by vlib/replay.py: native replay of a C12/C06 counterexample on the REAL checker */
#include <stdio.h>
#include <stdlib.h>
#include "harness/c12_job_check.c"
static uint8_t scratch[4096];
static int dummy_fn(struct IMB_JOB *j) { (void) j; return 0; }
int main(void)
{
        IMB_MGR *st = calloc(1, sizeof(*st));
        IMB_JOB j;
        memset(&j, 0, sizeof(j));
        (void) dummy_fn; (void) scratch;
        %s
        const IMB_CIPHER_MODE cm = (IMB_CIPHER_MODE) %d;
        const IMB_HASH_ALG ha = (IMB_HASH_ALG) %d;
        const IMB_CIPHER_DIRECTION dir = (IMB_CIPHER_DIRECTION) %d;
        const uint64_t kl = 0x%xULL;
        j.hash_alg = ha;
        st->imb_errno = %d;
        const int before = st->imb_errno;
#if %d
        const errset_t spec = (spec_light_inv(cm, ha, dir, kl) ? SPEC_ANY : 0) | spec_light_errs(cm, ha, dir, kl);
        const int ret = is_job_invalid_light(st, cm, ha, dir, kl); /* implicit conversion as in the callers */
#else
        const errset_t spec = spec_eval(&j, cm, ha, dir, kl);
        const int ret = is_job_invalid(st, &j, cm, ha, dir, kl); /* implicit conversion as in the callers */
#endif
        int bad = 0;
        printf("cipher_mode=%%d hash_alg=%%d dir=%%d key_len=%%llu -> checker ret=%%d errno=%%d (%%s); catalogue: %%s errset=0x%%llx\\n",
               (int) cm, (int) ha, (int) dir, (unsigned long long) kl, ret, st->imb_errno,
               imb_get_strerror(st->imb_errno), (spec & SPEC_ANY) ? "INVALID" : "valid",
               (unsigned long long) (spec & ~SPEC_ANY));
        if ((spec & SPEC_ANY) && ret == 0) { printf("REPLAY-FAIL soundness: documented constraint violated but job accepted\\n"); bad = 1; }
        if (!(spec & SPEC_ANY) && ret != 0) { printf("REPLAY-FAIL completeness: job satisfies every documented constraint but is rejected\\n"); bad = 1; }
        if (ret != 0 && (es_of(st->imb_errno) & spec & ~SPEC_ANY) == 0) { printf("REPLAY-FAIL errno does not name a violated constraint\\n"); bad = 1; }
        if (ret == 0 && st->imb_errno != before) { printf("REPLAY-FAIL errno changed on accepted job\\n"); bad = 1; }
        return bad ? 1 : 0;
}
""" % ("\n        ".join(body), args["cm"], args["ha"], args["dir"], args["kl"], errno_before, 1 if light else 0))
    exe = os.path.join(wd, "replay_job_check")
    rc, out = _cc_native(src, exe)
    signature = "cm=%d ha=%d dir=%d key_len=%d sgl_state=%s" % (args["cm"], args["ha"], args["dir"], args["kl"], sig.get("sgl_state"))
    if rc != 0:
        return False, "native replay did not compile: " + out[-800:], signature, src
    p = subprocess.run([exe], stdout=subprocess.PIPE, stderr=subprocess.STDOUT, timeout=60)
    out = p.stdout.decode(errors="replace")
    return (p.returncode == 1 and "REPLAY-FAIL" in out), out.strip()[-1500:], signature, src


GENERATORS = {"job_check": gen_job_check}


def make_replay(pid, r, o):
    u = r.unit
    trace = o.get("trace")
    info = {
        "property": pid, "unit": u.name, "obligation": o["name"], "description": o["description"],
        "location": o["loc"], "function": o.get("function"), "class": o["class"],
        "harness": u.harness, "entry": u.entry,
        "enforced_contracts": ["%s/%s" % fc for fc in u.enforce],
        "checker_cmds": r.cmds,
        "verifier_output": {"status": o["status"], "counterexample": summarize_trace(trace) if trace else
                            "no trace available from the verifier for this obligation"},
        "signature": "",
    }
    confirmed, detail = False, "no native replay generator for this unit (pre-state not constructible through the API or obligation over an assumed contract)"
    gen = GENERATORS.get(u.replay or "")
    if gen and trace:
        wd = tempfile.mkdtemp(prefix="verif_replay_")
        try:
            confirmed, detail, sig, src = gen(r, o, _leafs(trace), wd)
            info["signature"] = sig
            if src and os.path.exists(src):
                os.makedirs(os.path.join(VERIF, "replay"), exist_ok=True)
                keep = os.path.join(VERIF, "replay", "%s_%s_%s.c" % (pid, u.name, hashlib.sha1((o["name"] + sig).encode()).hexdigest()[:8]))
                shutil.copy(src, keep)
                info["native_replay_source"] = keep
                info["native_replay_build"] = "gcc -O1 -std=gnu99 -DNATIVE_REPLAY " + " ".join(core.BASE_DEFS + core.BASE_INCS) + " " + keep
        except Exception as e:
            confirmed, detail = False, "replay generator error: %r" % (e,)
        finally:
            shutil.rmtree(wd, ignore_errors=True)
    if not info["signature"]:
        info["signature"] = "%s %s" % (o["name"], o["description"][:80])
    return info, confirmed, detail


def rerun_replay(path):
    """check.py <id> --replay <file>: rebuild and rerun the native replay recorded in a replay file"""
    info = json.load(open(path))
    src = info.get("native_replay_source")
    print(json.dumps({k: info[k] for k in ("property", "unit", "obligation", "description", "location") if k in info}, indent=1))
    if not src or not os.path.exists(src):
        print("no native replay source recorded (no-failing-input-found); verifier output:")
        print(json.dumps(info.get("verifier_output"), indent=1)[:4000])
        return 1
    wd = tempfile.mkdtemp(prefix="verif_replay_")
    try:
        exe = os.path.join(wd, "replay")
        rc, out = _cc_native(src, exe)
        if rc != 0:
            print("replay does not compile against the current tree:\n" + out[-1500:])
            return 2
        p = subprocess.run([exe], stdout=subprocess.PIPE, stderr=subprocess.STDOUT, timeout=120)
        print(p.stdout.decode(errors="replace"))
        return 1 if p.returncode != 0 else 0
    finally:
        shutil.rmtree(wd, ignore_errors=True)
